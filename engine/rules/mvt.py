"""Shared vector-tile (MVT) rules for C10 and C11: PBF field tables against the MVT 2.1 specification (E3), table fidelity
of layer key/value tables, who-may-write census for feature fields."""
import json
import os

from . import affine, ir

SPEC = {
    # message -> field -> (wire, class)
    "tile": {3: (2, "message")},
    "layer": {1: (2, "string"), 2: (2, "message"), 3: (2, "string"), 4: (2, "message"), 5: (0, "varint"), 15: (0, "varint")},
    "feature": {1: (0, "varint"), 2: (2, "packed_u32"), 3: (0, "varint"), 4: (2, "bytes")},
    "value": {1: (2, "string"), 2: (5, "f32"), 3: (1, "f64"), 4: (0, "varint"), 5: (0, "varint"), 6: (0, "svarint"), 7: (0, "varint")},
}
DEFAULTS = {"extent": 4096, "version": 1}

READ_CLASS = {"read_pbf_string": "string", "read_string": "string", "get_pbf_sub_reader": "message", "read_pbf_blob": "bytes", "read_varint": "varint",
              "read_svarint": "svarint", "read_f32": "f32", "read_f64": "f64", "read_pbf_packed_uint32": "packed_u32"}
WRITE_CLASS = {"write_pbf_string": "string", "write_pbf_blob": "bytes", "write_varint": "varint", "write_svarint": "svarint", "write_f32": "f32",
               "write_f64": "f64", "write_pbf_packed_uint32": "packed_u32"}


def reader_table(b):
    """{field: (wire, class)} from the match on read_pbf_key()"""
    out = {}
    arms_seen = []
    for n in ir.walk_nodes(b["body"]):
        if n.get("k") == "match" and ir.contains(n["e"], lambda y: y.get("k") == "mcall" and y.get("name") == "read_pbf_key"):
            for a in n["arms"]:
                p = a["pat"]
                if p.get("k") == "tuple" and len(p["ps"]) == 2 and all(x.get("k") == "expr" and x["e"].get("k") == "lit" for x in p["ps"]):
                    f, w = p["ps"][0]["e"]["v"], p["ps"][1]["e"]["v"]
                    calls = [y["name"] for y in ir.walk_nodes(a["body"]) if y.get("k") == "mcall" and y.get("name") in READ_CLASS]
                    cls = None
                    if "get_pbf_sub_reader" in calls:
                        cls = "message"
                    elif "read_string" in calls or "read_pbf_string" in calls:
                        cls = "string"
                    elif calls:
                        cls = READ_CLASS[calls[0]]
                    out[f] = (w, cls)
                    arms_seen.append(a)
            return out, n, arms_seen
    return out, None, arms_seen


def writer_table(b):
    """{field: (wire, class)} pairing each write_pbf_key(f, w) with the next write_* call in evaluation order"""
    out = {}
    pending = None
    for n in _eval_order(b["body"]):
        if n.get("k") != "mcall":
            continue
        if n.get("name") == "write_pbf_key" and len(n.get("a", ())) == 2:
            f, w = ir.const_eval(n["a"][0], {}), ir.const_eval(n["a"][1], {})
            pending = (f, w)
        elif n.get("name") in WRITE_CLASS and pending is not None:
            cls = WRITE_CLASS[n["name"]]
            if n["name"] == "write_pbf_blob" and ir.contains(n["a"][0], lambda y: y.get("k") == "mcall" and y.get("name") == "to_blob"):
                cls = "message"
            out[pending[0]] = (pending[1], cls)
            pending = None
    return out


def writer_pairing(b):
    """(keys not followed by a value write, value writes not preceded by a key) in evaluation order — both must be 0: a key without
    its value, or a value without its key, corrupts every following field of the message"""
    pending, lone_keys, lone_vals = False, 0, 0
    for n in _eval_order(b["body"]):
        if n.get("k") != "mcall":
            continue
        if n.get("name") == "write_pbf_key":
            if pending:
                lone_keys += 1
            pending = True
        elif n.get("name") in WRITE_CLASS:
            if not pending:
                lone_vals += 1
            pending = False
    if pending:
        lone_keys += 1
    return lone_keys, lone_vals


def _eval_order(n):
    """post-order (receiver and arguments before the call itself)"""
    for c in ir.children(n):
        yield from _eval_order(c)
    yield n


# ------------------------------------------------------------------ push-count path analysis

def exit_counts(P, body, is_event, depth=0):
    """set of possible numbers of `event` occurrences on complete paths through a function body (early returns included).
    is_event(node) -> count contributed by that call node (int), or a set of possible counts, or None."""
    def seq(n, counts):
        """returns (normal_exit_counts, returned_counts) after evaluating n starting from each count in `counts`"""
        k = n.get("k")
        if k == "block":
            cur, rets = set(counts), set()
            for st in n.get("stmts", ()):
                cur, r = seq(st, cur)
                rets |= r
                if not cur:
                    return cur, rets
            if "tail" in n:
                cur, r = seq(n["tail"], cur)
                rets |= r
            return cur, rets
        if k == "if":
            cur, rets = seq(n["c"], counts)
            a, ra = seq(n["then"], cur)
            if "else" in n:
                b_, rb = seq(n["else"], cur)
            else:
                b_, rb = set(cur), set()
            return a | b_, rets | ra | rb
        if k == "match":
            cur, rets = seq(n["e"], counts)
            outs = set()
            for arm in n["arms"]:
                a, ra = seq(arm["body"], cur)
                outs |= a
                rets |= ra
            return outs, rets
        if k == "ret":
            cur, rets = (seq(n["e"], counts) if "e" in n else (set(counts), set()))
            e = ir.unparen(n["e"]) if "e" in n else None
            if e is not None and e.get("k") == "call" and (e.get("q") or "").endswith("Result::Err::{Ctor#0}"):
                return set(), rets   # error exit: no table is produced at all
            return set(), rets | cur
        if k in ("for", "while", "loop"):
            # an event inside a loop makes the count unbounded: represent as 99
            inner = False
            for x in ir.walk_nodes(n.get("body", n)):
                if x is not n and x.get("k") in ("mcall", "call") and is_event(x):
                    inner = True
            if inner:
                return {99}, set()
            return set(counts), set()
        if k == "closure":
            return set(counts), set()
        cur, rets = set(counts), set()
        for c in ir.children(n):
            cur, r = seq(c, cur)
            rets |= r
        # `?` leaves with an error: the caller gets no value, so these exits do not count
        if k in ("mcall", "call"):
            ev = is_event(n)
            if ev:
                evs = ev if isinstance(ev, (set, frozenset)) else {ev}
                cur = {c + e for c in cur for e in evs}
        return cur, rets
    normal, rets = seq(body["body"], {0})
    return normal | rets


def push_summary(P, fq, list_pred, depth=0, memo=None):
    """possible number of elements appended (Vec::push) to a place satisfying list_pred by calling fq once"""
    memo = memo if memo is not None else {}
    if fq in memo:
        return memo[fq]
    memo[fq] = {0}
    b = P.fn(fq)
    if b is None or depth > 4:
        return {0}

    def ev(n):
        if n.get("k") == "mcall" and n.get("q") == "alloc::vec::Vec::push" and list_pred(n["recv"]):
            return 1
        if n.get("k") in ("mcall", "call"):
            for t in P.targets_of(n):
                if t in P.by_q and t != fq:
                    s = push_summary(P, t, list_pred, depth + 1, memo)
                    if s != {0}:
                        return frozenset(s)
        return None
    res = exit_counts(P, b, ev)
    memo[fq] = res
    return res


def table_fidelity(ck, P, rule="R-TABLE-FIDELITY"):
    """layer key/value tables are index-addressed by still-encoded tags: reading field 3/4 must append exactly one entry"""
    rd = [b for b in P.bodies if b["q"].endswith("vector_tile::layer::VectorTileLayer::read")]
    if not ck.anchor(rule, "VectorTileLayer::read", rd, 1):
        return
    b = rd[0]
    tab, m, arms = reader_table(b)
    lets = {}
    for n in ir.walk_nodes(b["body"]):
        if n.get("k") == "let" and n["pat"].get("k") == "bind":
            lets[n["pat"]["hid"]] = n
    for fld, tname in ((3, "key"), (4, "val")):
        arm = None
        for a in arms:
            if a["pat"]["ps"][0]["e"]["v"] == fld:
                arm = a
        key = "%s|field%d" % (b["q"], fld)
        if arm is None:
            ck.violation(rule, key, "no reader arm for layer field %d" % fld, ir.loc(b))
            continue
        # (a) push onto a local Vec that later becomes the table's list unchanged
        pushes = [n for n in ir.walk_nodes(arm["body"]) if n.get("k") == "mcall" and n.get("q") == "alloc::vec::Vec::push" and ir.local_hid(n["recv"]) is not None]
        if len(pushes) == 1:
            vh = ir.local_hid(pushes[0]["recv"])
            # exactly one push on every path of the arm (the `?` inside the argument happens before the push)
            cnt = _arm_counts(P, arm["body"], lambda n: 1 if n is pushes[0] else None)
            flows = _vec_becomes_table(P, b, vh, tname)
            ck.check(cnt <= {1} | set() and 1 in cnt and flows, rule, key,
                     "field %d appends exactly one entry to a vector that becomes the %s table's list unchanged" % (fld, tname),
                     "field %d: append count on the paths of the arm is %s, vector reaches the table unchanged: %s" % (fld, sorted(cnt), flows), ir.loc(arm["body"]))
            continue
        # (b) a call into the table whose effect on `list` is summarised
        calls = [n for n in ir.walk_nodes(arm["body"]) if n.get("k") == "mcall" and any(t in P.by_q and "property_manager" in t for t in P.targets_of(n))]
        if not calls:
            ck.violation(rule, key, "arm of field %d does not store the entry in a table" % fld, ir.loc(arm["body"]))
            continue
        t = [t for t in P.targets_of(calls[0]) if t in P.by_q][0]
        s = push_summary(P, t, lambda r: ir.place_str(r).endswith(".list"))
        ck.check(s == {1}, rule, key, "field %d: %s appends exactly one entry on every path" % (fld, t.rsplit("::", 1)[-1]),
                 "field %d is stored through %s, which appends %s entries depending on the path: a repeated key/value (legal in MVT) is dropped, so every later "
                 "tag index — which features keep in encoded form — points at the wrong entry" % (fld, t.split("::")[-1], sorted(s)), ir.loc(calls[0]))


def repeated_kept(ck, P, rule="R-TABLE-FIDELITY"):
    """repeated message fields are kept completely: every `feature` (layer field 2) that was decoded is appended to the vector that
    becomes the layer's feature list, every `layer` (tile field 3) to the tile's layer list - exactly one push on every path of the
    arm, no condition on what was decoded (an unknown geometry type, an empty layer ... is still content of the tile)."""
    for fq, fld, target, what in (("vector_tile::layer::VectorTileLayer::read", 2, "features", "feature"), ("vector_tile::tile::VectorTile::from_blob", 3, "layers", "layer")):
        rd = [b for b in P.bodies if b["q"].endswith(fq)]
        if not ck.anchor(rule, fq.rsplit("::", 2)[-2] + " reader", rd, 1):
            continue
        b = rd[0]
        tab, m, arms = reader_table(b)
        arm = next((a for a in arms if a["pat"]["ps"][0]["e"]["v"] == fld), None)
        key = "%s|field%d-kept" % (b["q"], fld)
        if arm is None:
            ck.violation(rule, key, "no reader arm for field %d" % fld, ir.loc(b))
            continue
        def root_of(r):
            r = ir.strip(r)
            if ir.local_hid(r) is not None:
                return ("local", ir.local_hid(r))
            if r.get("k") == "field" and r.get("name") == target and ir.local_hid(ir.strip(r["e"])) is not None:
                return ("field", ir.local_hid(ir.strip(r["e"])))
            return None
        pushes = [n for n in ir.walk_nodes(arm["body"]) if n.get("k") == "mcall" and n.get("q") == "alloc::vec::Vec::push" and root_of(n["recv"]) is not None]
        vhs = {root_of(n["recv"]) for n in pushes}
        cnt = _arm_counts(P, arm["body"], lambda n: 1 if any(n is x for x in pushes) else None) if len(vhs) == 1 else {0}
        flows = False
        if len(vhs) == 1 and next(iter(vhs))[0] == "field":
            # pushed straight into the `target` field of the value under construction, which is what the function returns
            th = next(iter(vhs))[1]
            t = ir.strip(ir.fn_block(b).get("tail") or {})
            flows = t.get("k") == "call" and (t.get("q") or "").endswith("Result::Ok::{Ctor#0}") and ir.local_hid(ir.strip(t["a"][0])) == th
            others = [n["name"] for n in ir.walk_nodes(b["body"]) if n.get("k") == "mcall" and root_of(n["recv"]) == ("field", th) and n["name"] != "push" and (n["recv"].get("ta") or "").startswith("&mut")]
            flows = flows and not others
        elif len(vhs) == 1:
            vh = next(iter(vhs))[1]
            for n in ir.walk_nodes(b["body"]):
                if n.get("k") == "struct":
                    for f in n["fields"]:
                        if f["name"] == target and ir.local_hid(ir.strip(f["e"])) == vh:
                            flows = True
                if n.get("k") == "call" and (n.get("q") or "").endswith(("VectorTile::new", "VectorTileLayer::new")) and any(ir.local_hid(ir.strip(a)) == vh for a in n.get("a", ())):
                    flows = True
            muts = [n["name"] for n in ir.walk_nodes(b["body"]) if n.get("k") == "mcall" and ir.local_hid(n["recv"]) == vh and (n["recv"].get("ta") or "").startswith("&mut") and n["name"] != "push"]
            flows = flows and not muts
        ck.check(cnt == {1} and flows, rule, key, "every decoded %s is appended (exactly one push on every path of the arm) to the vector that becomes the %s list" % (what, target),
                 "decoded %ss are not all kept: pushes per path of the arm %s, vector reaches `%s` unchanged: %s - a %s the reader decides to skip disappears from every merged / rewritten tile" %
                 (what, sorted(cnt), target, flows, what), ir.loc(arm["body"]))


def _arm_counts(P, arm_body, ev):
    return exit_counts(P, {"body": arm_body}, ev)


def _vec_becomes_table(P, b, vh, tname):
    """the local vector vh is passed to VTLPMap::new(...) for field `tname` of the PropertyManager that the layer stores,
    and VTLPMap::new stores its parameter as `list`"""
    news = [n for n in ir.walk_nodes(b["body"]) if n.get("k") == "call" and (n.get("q") or "").endswith("VTLPMap::new") and n.get("a") and ir.local_hid(n["a"][0]) == vh]
    if len(news) != 1:
        return False
    # is that call the initialiser of field tname in a PropertyManager literal?
    ok = False
    for n in ir.walk_nodes(b["body"]):
        if n.get("k") == "struct" and (n.get("q") or "").endswith("PropertyManager"):
            for f in n["fields"]:
                if f["name"] == tname and ir.contains(f["e"], lambda y: y is news[0]):
                    ok = True
    nb = P.fn(news[0]["q"])
    if nb is None:
        return False
    ph = ir.pat_binds(nb["params"][0])[0]["hid"]
    okn = False
    for n in ir.walk_nodes(nb["body"]):
        if n.get("k") == "struct" and (n.get("q") or "").endswith("VTLPMap"):
            for f in n["fields"]:
                if f["name"] == "list" and ir.local_hid(f["e"]) == ph and f["e"].get("k") == "path":
                    okn = True
    # nothing reorders the vector in between
    muts = [n["name"] for n in ir.walk_nodes(b["body"]) if n.get("k") == "mcall" and ir.local_hid(n["recv"]) == vh and n["recv"].get("ta", "").startswith("&mut") and n["name"] != "push"]
    return ok and okn and not muts


def pbf_rules(ck, P, rule="R-PBF"):
    pairs = {
        "tile": ("vector_tile::tile::VectorTile::from_blob", "vector_tile::tile::VectorTile::to_blob"),
        "layer": ("vector_tile::layer::VectorTileLayer::read", "vector_tile::layer::VectorTileLayer::to_blob"),
        "feature": ("vector_tile::feature::VectorTileFeature::read", "vector_tile::feature::VectorTileFeature::to_blob"),
        "value": ("GeoValuePBF<'a>>::read", "GeoValuePBF<'a>>::to_blob"),
    }
    for msg, (rq, wq) in pairs.items():
        rb = [b for b in P.bodies if b["q"].endswith(rq)]
        wb = [b for b in P.bodies if b["q"].endswith(wq)]
        if not ck.anchor(rule, msg + " reader/writer", rb + wb, 2):
            continue
        rt, m, arms = reader_table(rb[0])
        wt = writer_table(wb[0])
        spec = SPEC[msg]
        ck.check(rt == spec, rule, msg + "|reader", "reader accepts exactly the MVT 2.1 fields of %s: %s" % (msg, rt),
                 "reader table %s differs from MVT 2.1 %s" % (rt, spec), ir.loc(rb[0]))
        bad = {f: v for f, v in wt.items() if spec.get(f) != v and not (spec.get(f, (None,))[0] == v[0] and spec[f][1] == "bytes" and v[1] == "bytes")}
        lk, lv = writer_pairing(wb[0])
        ck.check(lk == 0 and lv == 0, rule, msg + "|key-value-pairs", "every field key is followed by its value and every value is preceded by its key",
                 "%d key(s) without a value and %d value(s) without a key in the writer of %s" % (lk, lv, msg), ir.loc(wb[0]))
        ck.check(not bad and set(wt) <= set(spec) and (set(wt) == set(spec) or msg == "value"), rule, msg + "|writer", "writer emits MVT 2.1 fields with the spec's wire types: %s" % wt,
                 "writer table %s disagrees with MVT 2.1 %s" % (wt, spec), ir.loc(wb[0]))
        ck.check(all(rt.get(f) == v for f, v in wt.items()), rule, msg + "|agree", "every written (field, wire, codec) is read back with the matching decoder",
                 "writer/reader codec mismatch: %s vs %s" % (wt, rt), ir.loc(wb[0]))
        # unknown fields are an error, not a default
        if m is not None:
            last = m["arms"][-1]
            ck.check(ir.diverges(last["body"]) or ir.contains(last["body"], lambda y: y.get("k") == "ret"), rule, msg + "|unknown-field",
                     "unknown (field, wire) combinations are rejected", "unknown fields fall through silently", ir.loc(m))
    zigzag_rules(ck, P, rule)
    varint_rules(ck, P, rule)
    pbf_primitive_rules(ck, P, rule)
    # defaults
    rd = [b for b in P.bodies if b["q"].endswith("vector_tile::layer::VectorTileLayer::read")]
    wr = [b for b in P.bodies if b["q"].endswith("vector_tile::layer::VectorTileLayer::to_blob")]
    if rd and wr:
        for nm, dv in DEFAULTS.items():
            # the local that ends up in the layer's `<nm>` field (struct literal or constructor argument), whatever it is called
            fh = None
            for y in ir.walk_nodes(rd[0]["body"]):
                if y.get("k") == "struct" and (y.get("q") or "").endswith("VectorTileLayer"):
                    for f_ in y["fields"]:
                        if f_["name"] == nm:
                            fh = ir.local_hid(f_["e"])
            init = [n for n in ir.walk_nodes(rd[0]["body"]) if n.get("k") == "let" and n["pat"].get("k") == "bind" and n["pat"]["hid"] == fh and "init" in n]
            rv = ir.const_eval(init[0]["init"], {}) if init else None
            wv = None
            for n in ir.walk_nodes(wr[0]["body"]):
                if n.get("k") == "if":
                    c = ir.cmp_norm(n["c"])
                    if c and c[0] == "self." + nm and c[1] == "!=":
                        wv = int(c[2]) if c[2].isdigit() else None
            ck.check(rv == dv and wv == dv, rule, "layer|default-" + nm, "%s defaults to %d on both sides" % (nm, dv), "%s default: reader %s, writer %s, spec %d" % (nm, rv, wv, dv), ir.loc(rd[0]))
    # order preservation: features/layers are pushed and written in iteration order
    for q, fld in (("vector_tile::tile::VectorTile::to_blob", "self.layers"), ("vector_tile::layer::VectorTileLayer::to_blob", "self.features")):
        b = [x for x in P.bodies if x["q"].endswith(q)]
        if b:
            loops = [n for n in ir.walk_nodes(b[0]["body"]) if n.get("k") == "for" and ir.place_str(n["iter"]).startswith(fld)]
            ck.check(bool(loops) and ir.place_str(loops[0]["iter"]) in (fld + ".iter()", fld), rule, q.rsplit("::", 2)[-2] + "|order", "%s are written in stored order" % fld.split(".")[1],
                     "%s are not written in stored order" % fld, ir.loc(b[0]))


def tag_pair_rules(ck, P, rule="R-TABLE-INDEX"):
    """a feature's tags are (key index, value index) PAIRS: the encoder pushes key then value for every property; the decoder reads
    tag_ids[2i] as key and tag_ids[2i + 1] as value for i in 0 .. len / 2, and looks the key up in the key table, the value in the value table."""
    from . import affine as A
    dec = [b for b in P.bodies if b["q"].endswith("property_manager::PropertyManager::decode_tag_ids")]
    enc = [b for b in P.bodies if b["q"].endswith("property_manager::PropertyManager::encode_tag_ids")]
    if not ck.anchor(rule, "encode_tag_ids + decode_tag_ids", dec + enc, 2):
        return
    b = dec[0]
    lp = [n for n in ir.walk_nodes(b["body"]) if n.get("k") == "for"]
    okd, why = False, "no loop"
    if len(lp) == 1:
        it = ir.unparen(lp[0]["iter"])
        iv = ir.pat_binds(lp[0]["pat"])
        fl = {f["name"]: f["e"] for f in it.get("fields", [])} if it.get("k") == "struct" else {}
        start = ir.const_eval(fl.get("start"), {}) if "start" in fl else None
        end = A.show_stable(A.ev(fl.get("end"), A.Env())) if "end" in fl else "?"
        idx = [y for y in ir.walk_nodes(lp[0]["body"]) if y.get("k") == "index"]
        terms = []
        env = A.Env()
        for y in idx:
            terms.append(A.ev(y["i"], env))
        i_s = A.local_sym(iv[0]) if len(iv) == 1 else A.TOP
        want = [A.mul(i_s, A.const(2)), A.add(A.mul(i_s, A.const(2)), A.const(1))]
        roles = {}
        lets = {y["pat"]["hid"]: y["init"] for y in ir.walk_nodes(lp[0]["body"]) if y.get("k") == "let" and "init" in y and y["pat"].get("k") == "bind"}
        for y in ir.walk_nodes(lp[0]["body"]):
            if y.get("k") == "mcall" and y.get("name") == "get" and y.get("a") and ir.place_str(y["recv"]) in ("self.key", "self.val"):
                h = ir.local_hid(y["a"][0])
                t = A.ev(lets[h], env) if h in lets and ir.contains(lets[h], lambda z: z.get("k") == "index") else None
                if t is not None:
                    ix = [z for z in ir.walk_nodes(lets[h]) if z.get("k") == "index"][0]
                    roles[ir.place_str(y["recv"])] = A.ev(ix["i"], env)
        import re as _re
        if it.get("k") == "mcall" and it.get("name") == "chunks_exact" and (it.get("q") or "").endswith("chunks_exact") and len(iv) == 1 and lp[0]["pat"].get("k") == "bind":
            # the same pairs written as `for pair in tag_ids.chunks_exact(2)`: key = pair[0], value = pair[1] (a trailing odd id is ignored, as with len / 2)
            tp = [x for p_ in b["params"] for x in ir.pat_binds(p_) if x["name"] not in ("self", "__self")]
            n2 = ir.const_eval(it["a"][0], {}) if it.get("a") else None
            of_pair = all(ir.local_hid(y["e"]) == iv[0]["hid"] for y in idx)
            c = [ir.const_eval(y["i"], {}) for y in idx]

            def role(pl):
                t_ = roles.get(pl)
                return A.show(t_) if t_ is not None else None
            okd = n2 == 2 and len(tp) == 1 and ir.local_hid(it["recv"]) == tp[0]["hid"] and of_pair and c == [0, 1] and role("self.key") == A.show(A.const(0)) and role("self.val") == A.show(A.const(1))
            why = "chunks_exact(%s), indices %s, key from %s, value from %s" % (n2, c, role("self.key"), role("self.val"))
        else:
            okd = start == 0 and bool(_re.match(r"^\(len\(.+\) / 2\)$", end)) and len(terms) == 2 and A.eq(terms[0], want[0]) and A.eq(terms[1], want[1]) and \
                A.eq(roles.get("self.key"), want[0]) and A.eq(roles.get("self.val"), want[1])
            why = "range %s..%s, indices %s, key from %s, value from %s" % (start, end, [A.show(t) for t in terms], A.show(roles.get("self.key")), A.show(roles.get("self.val")))
    ck.check(okd, rule, b["q"] + "|pairs", "decode: for i in 0..len/2: key = keys[tag_ids[2i]], value = values[tag_ids[2i + 1]]", "tags are not decoded as (key, value) index pairs (%s)" % why, ir.loc(b))
    b = enc[0]
    lp = [n for n in ir.walk_nodes(b["body"]) if n.get("k") == "for"]
    oke = False
    if len(lp) == 1:
        pu = [y for y in ir.walk_nodes(lp[0]["body"]) if y.get("k") == "mcall" and y.get("name") == "push" and y.get("a")]
        kv = ir.pat_binds(lp[0]["pat"])
        if len(pu) == 2 and len(kv) == 2:
            def tbl(y):
                c = [z for z in ir.walk_nodes(y["a"][0]) if z.get("k") == "mcall" and z.get("name") == "add"]
                return (ir.place_str(c[0]["recv"]), ir.local_hid(c[0]["a"][0])) if c else (None, None)
            oke = tbl(pu[0]) == ("self.key", kv[0]["hid"]) and tbl(pu[1]) == ("self.val", kv[1]["hid"])
    ck.check(oke, rule, b["q"] + "|pairs", "encode: for every property push keys.add(key) then values.add(value)", "properties are not encoded as key index followed by value index", ir.loc(b))


def varint_rules(ck, P, rule="R-PBF"):
    """base-128 varints (protobuf encoding guide; also PMTiles directories): the reader ORs (byte & 0x7F) << shift into the value for
    every byte, stops after a byte with (byte & 0x80) == 0 and advances the shift by 7; the writer emits (value & 0x7F) | 0x80 and
    shifts right by 7 while value >= 0x80, then the last byte as it is."""
    rd = [b for b in P.bodies if b["q"].endswith("io::value_reader::ValueReader::read_varint")]
    wr = [b for b in P.bodies if b["q"].endswith("io::value_writer::ValueWriter::write_varint")]
    if not ck.anchor(rule, "read_varint + write_varint", rd + wr, 2):
        return
    b = rd[0]
    lp = [n for n in ir.walk_nodes(b["body"]) if n.get("k") == "loop"]
    okr, why = False, "no loop"
    if len(lp) == 1:
        body = lp[0]["body"]
        orr = [y for y in ir.walk_nodes(body) if y.get("k") == "assignop" and y.get("op", "").startswith("|")]
        brk = [(y, p_) for y, p_, _ in ir.walk(body) if y.get("k") == "break"]
        inc = [y for y in ir.walk_nodes(body) if y.get("k") == "assignop" and y.get("op", "").startswith("+")]
        rdb = [y for y in ir.walk_nodes(body) if y.get("k") == "let" and "init" in y and ir.contains(y["init"], lambda z: z.get("k") == "mcall" and z.get("name") == "read_u8")]
        ok_or = False
        if len(orr) == 1 and len(rdb) == 1:
            bh = rdb[0]["pat"]["hid"]
            r = ir.unparen(orr[0]["r"])
            # ((byte as u64) & 0x7F) << shift
            if r.get("k") == "bin" and r.get("op") == "<<":
                l = ir.unparen(r["l"])
                sh = ir.local_hid(r["r"])
                msk = l.get("k") == "bin" and l.get("op") == "&" and {ir.const_eval(l["l"], {}), ir.const_eval(l["r"], {})} & {0x7F} and ir.contains(l, lambda z: z.get("k") == "path" and z.get("hid") == bh)
                ok_or = bool(msk) and sh is not None and len(inc) == 1 and ir.local_hid(inc[0]["l"]) == sh and ir.const_eval(inc[0]["r"], {}) == 7
        ok_brk = False
        if len(brk) == 1:
            for p_ in reversed(brk[0][1]):
                if p_.get("k") == "if":
                    c = ir.unparen(p_["c"])
                    in_then = ir.contains(p_["then"], lambda z: z is brk[0][0])
                    if c.get("k") == "bin" and c.get("op") in ("==", "!="):
                        l, r_ = ir.unparen(c["l"]), ir.unparen(c["r"])
                        andn = l if l.get("k") == "bin" and l.get("op") == "&" else (r_ if r_.get("k") == "bin" and r_.get("op") == "&" else None)
                        other = r_ if andn is l else l
                        if andn is not None and {ir.const_eval(andn["l"], {}), ir.const_eval(andn["r"], {})} & {0x80} and ir.const_eval(other, {}) == 0:
                            ok_brk = (c["op"] == "==") == in_then
                    break
        # order inside the loop: read, or, break-test, shift += 7
        order = {id(y): i for i, y in enumerate(ir.walk_nodes(body))}
        seq_ok = bool(orr) and bool(brk) and bool(inc) and order[id(orr[0])] < order[id(brk[0][0])] < order[id(inc[0])]
        init0 = all(ir.const_eval(y.get("init"), {}) == 0 for y in ir.walk_nodes(b["body"]) if y.get("k") == "let" and y["pat"].get("k") == "bind" and "init" in y and
                    y["pat"]["hid"] in {ir.local_hid(orr[0]["l"]) if orr else None, ir.local_hid(inc[0]["l"]) if inc else None})
        okr = ok_or and ok_brk and seq_ok and init0
        why = "accumulate ok=%s, stop test ok=%s, order ok=%s, start at 0=%s" % (ok_or, ok_brk, seq_ok, init0)
    ck.check(okr, rule, "varint|read", "read_varint: value |= (byte & 0x7F) << shift; stop after a byte without the 0x80 bit; shift += 7 (value and shift start at 0)",
             "read_varint does not decode base-128 varints (%s)" % why, ir.loc(b))
    b = wr[0]
    wl = [n for n in ir.walk_nodes(b["body"]) if n.get("k") == "while"]
    okw, why = False, "no while loop"
    if len(wl) == 1:
        vp = [x for p_ in b["params"] for x in ir.pat_binds(p_) if x["name"] != "self"]
        vh = vp[0]["hid"] if vp else None
        c = ir.cmp_norm(wl[0]["c"])
        cond_ok = c is not None and c[1:] in ((">=", "128"), (">", "127")) and vp and c[0] == vp[0]["name"]
        body = wl[0]["body"]
        wa = [y for y in ir.walk_nodes(body) if y.get("k") == "mcall" and y.get("name") in ("write_all", "write_u8", "write")]
        sh = [y for y in ir.walk_nodes(body) if y.get("k") == "assignop" and y.get("op", "").startswith(">>") and ir.local_hid(y["l"]) == vh and ir.const_eval(y["r"], {}) == 7]
        byte_ok = False
        if len(wa) == 1:
            ors = [y for y in ir.walk_nodes(wa[0]) if y.get("k") == "bin" and y.get("op") == "|"]
            if len(ors) == 1:
                sides = [ir.unparen(ors[0]["l"]), ir.unparen(ors[0]["r"])]
                hi = [x for x in sides if ir.const_eval(x, {}) == 0x80]
                lo = [x for x in sides if x.get("k") == "bin" and x.get("op") == "&" and {ir.const_eval(x["l"], {}), ir.const_eval(x["r"], {})} & {0x7F} and ir.contains(x, lambda z: z.get("k") == "path" and z.get("hid") == vh)]
                byte_ok = len(hi) == 1 and len(lo) == 1
        order = {id(y): i for i, y in enumerate(ir.walk_nodes(b["body"]))}
        after = [y for y in ir.walk_nodes(b["body"]) if y.get("k") == "mcall" and y.get("name") in ("write_all", "write_u8", "write") and not ir.contains(wl[0], lambda z: z is y)]
        last_ok = len(after) == 1 and order[id(after[0])] > order[id(wl[0])] and ir.contains(after[0], lambda z: z.get("k") == "path" and z.get("hid") == vh) and \
            not ir.contains(after[0], lambda z: z.get("k") == "bin" and z.get("op") in ("|", "&"))
        okw = bool(cond_ok) and byte_ok and len(sh) == 1 and bool(wa) and order[id(wa[0])] < order[id(sh[0])] and last_ok
        why = "loop condition ok=%s, continuation byte ok=%s, shift by 7=%s, last byte ok=%s" % (bool(cond_ok), byte_ok, len(sh) == 1, last_ok)
    ck.check(okw, rule, "varint|write", "write_varint: while value >= 0x80 { emit (value & 0x7F) | 0x80; value >>= 7 } then the last byte", "write_varint does not encode base-128 varints (%s)" % why, ir.loc(b))


def _io_calls(body, skip=("context", "with_context")):
    """method calls of a body in source order, without the error-context adaptors: (node, receiver local hid or None, name)"""
    out = []
    for n in ir.walk_nodes(body):
        if n.get("k") == "mcall" and n.get("name") not in skip:
            out.append((n, ir.local_hid(ir.strip(n["recv"])) if "recv" in n else None, n.get("name")))
    return out


def _len_of(n):
    """hid of the local whose `.len()` the expression is (through casts), else None"""
    n = ir.strip(n)
    while n.get("k") == "cast":
        n = ir.strip(n["e"])
    if n.get("k") == "mcall" and n.get("name") == "len" and not n.get("a"):
        return ir.local_hid(ir.strip(n["recv"]))
    return None


def pbf_primitive_rules(ck, P, rule="R-PBF"):
    """the length-delimited and key primitives every message codec is built from (protobuf encoding guide): a LEN field is
    varint(byte length of the payload) followed by exactly that payload; a key is (field << 3) | wire.  The accepted shapes are
    the straight-line ones of today's tree; a prefix that is computed from anything but the payload's own `.len()` is not decided
    and is reported."""
    W = "io::value_writer::ValueWriter::"
    R = "io::value_reader::ValueReader::"
    names_w = ["write_pbf_key", "write_pbf_blob", "write_pbf_string", "write_pbf_packed_uint32"]
    names_r = ["read_pbf_key", "read_pbf_blob", "read_pbf_string", "read_pbf_packed_uint32", "get_pbf_sub_reader"]
    B = {}
    for nm in names_w:
        B[nm] = [b for b in P.bodies if b["q"].endswith(W + nm)]
    for nm in names_r:
        B[nm] = [b for b in P.bodies if b["q"].endswith(R + nm)]
    if not ck.anchor(rule, "pbf primitives (key, blob, string, packed uint32, sub reader)", [x for v in B.values() for x in v], 9):
        return

    def branches(b):
        return [n for n in ir.walk_nodes(b["body"]) if n.get("k") in ("if", "match", "loop", "while", "for", "closure", "ret", "break", "continue")]

    def params(b):
        return [x for p_ in b["params"] for x in ir.pat_binds(p_)]

    # --- writer: LEN payloads
    for nm, payload_call in (("write_pbf_blob", "write_blob"), ("write_pbf_string", "write_string")):
        b = B[nm][0]
        ps = [x for x in params(b) if x["name"] != "self"]
        selfh = [x["hid"] for x in params(b) if x["name"] == "self"]
        calls = [(n, r, m) for n, r, m in _io_calls(b["body"]) if m not in ("len",)]
        ok = len(ps) == 1 and len(calls) == 2 and not branches(b) and [m for _, _, m in calls] == ["write_varint", payload_call] and \
            all(r in selfh for _, r, _ in calls) and _len_of(calls[0][0]["a"][0]) == ps[0]["hid"] and ir.local_hid(ir.strip(calls[1][0]["a"][0])) == ps[0]["hid"]
        ck.check(ok, rule, "prim|" + nm, "%s writes varint(payload.len()) and then the payload itself, unconditionally" % nm,
                 "%s is not `write_varint(payload.len()); %s(payload)` on self: the length prefix and the bytes that follow it can disagree (calls: %s)" %
                 (nm, payload_call, [m for _, _, m in calls]), ir.loc(b))
    # --- writer: key
    b = B["write_pbf_key"][0]
    ps = [x for x in params(b) if x["name"] != "self"]
    calls = _io_calls(b["body"])
    ok = False
    if len(ps) == 2 and len(calls) == 1 and calls[0][2] == "write_varint" and not branches(b):
        a = ir.unparen(ir.strip(calls[0][0]["a"][0]))
        if a.get("k") == "bin" and a.get("op") in ("|", "+"):
            def base(x):
                x = ir.unparen(ir.strip(x))
                while x.get("k") in ("cast", "paren"):
                    x = ir.unparen(ir.strip(x["e"]))
                return x
            l, r = base(a["l"]), base(a["r"])
            sh, lo = (l, r) if l.get("k") == "bin" else (r, l)
            ok = sh.get("k") == "bin" and sh.get("op") == "<<" and ir.local_hid(base(sh["l"])) == ps[0]["hid"] and ir.const_eval(sh["r"], {}) == 3 and ir.local_hid(lo) == ps[1]["hid"] and \
                ir.strip(sh["l"]).get("t") == "u64"
    ck.check(ok, rule, "prim|write_pbf_key", "write_pbf_key writes varint((field as u64) << 3 | wire)", "write_pbf_key does not write (field << 3) | wire as one varint (shift in u64)", ir.loc(b))
    # --- writer: packed uint32 = LEN payload built in a scratch writer
    b = B["write_pbf_packed_uint32"][0]
    ps = [x for x in params(b) if x["name"] != "self"]
    selfh = [x["hid"] for x in params(b) if x["name"] == "self"]
    scratch = [n for n in ir.walk_nodes(b["body"]) if n.get("k") == "let" and n["pat"].get("k") == "bind" and "init" in n and
               ir.strip(n["init"]).get("k") == "call" and (ir.strip(n["init"]).get("q") or "").startswith("versatiles_core::io::value_writer_blob::ValueWriterBlob::new")]
    loops = [n for n in ir.walk_nodes(b["body"]) if n.get("k") == "for"]
    other = [n for n in branches(b) if n.get("k") != "for"]
    ok, why = False, "not a scratch writer + one loop + write_pbf_blob"
    if len(ps) == 1 and len(scratch) == 1 and len(loops) == 1 and not other:
        sh = scratch[0]["pat"]["hid"]
        lp = loops[0]
        it = ir.strip(lp["iter"])
        while it.get("k") == "mcall" and it.get("name") in ("iter", "copied", "cloned"):
            it = ir.strip(it["recv"])
        over_data = ir.local_hid(it) == ps[0]["hid"]
        vb = [x["hid"] for x in ir.pat_binds(lp["pat"])]
        inl = [(n, r, m) for n, r, m in _io_calls(lp["body"])]

        def val(x):
            x = ir.unparen(ir.strip(x))
            while x.get("k") in ("cast", "deref"):
                x = ir.unparen(ir.strip(x["e"]))
            return ir.local_hid(x)
        in_ok = len(inl) == 1 and inl[0][1] == sh and inl[0][2] == "write_varint" and val(inl[0][0]["a"][0]) in vb and len(vb) == 1
        outl = [(n, r, m) for n, r, m in _io_calls(b["body"]) if not ir.contains(lp, lambda z: z is n)]
        out_ok = [m for _, _, m in outl] == ["write_pbf_blob", "into_blob"] and outl[0][1] in selfh and outl[1][1] == sh and ir.contains(outl[0][0]["a"][0], lambda z: z is outl[1][0])
        order = {id(y): i for i, y in enumerate(ir.walk_nodes(b["body"]))}
        ok = over_data and in_ok and out_ok and order[id(lp)] < order[id(outl[0][0])]
        why = "loop over the data=%s, loop writes varint(value) to the scratch writer=%s, scratch blob written with write_pbf_blob after the loop=%s" % (over_data, in_ok, out_ok)
    ck.check(ok, rule, "prim|write_pbf_packed_uint32", "packed uint32 = every value as a varint into a scratch writer, whose bytes are then written with write_pbf_blob (length measured, not computed)",
             "write_pbf_packed_uint32 does not measure its payload (%s): a computed length prefix that is off for some values truncates or overruns the tag list" % why, ir.loc(b))
    # --- reader
    for nm, take in (("read_pbf_blob", "read_blob"), ("read_pbf_string", "read_string"), ("get_pbf_sub_reader", "get_sub_reader")):
        b = B[nm][0]
        calls = _io_calls(b["body"])
        lets = [n for n in ir.walk_nodes(b["body"]) if n.get("k") == "let" and n["pat"].get("k") == "bind"]
        ok = len(calls) == 2 and [m for _, _, m in calls] in (["read_varint", take], [take, "read_varint"]) and not branches(b)
        if ok:
            rv = [n for n, _, m in calls if m == "read_varint"][0]
            tk = [n for n, _, m in calls if m == take][0]
            a = ir.strip(tk["a"][0])
            direct = ir.contains(a, lambda z: z is rv) and not ir.contains(a, lambda z: z.get("k") in ("bin", "un", "cast"))
            via = len(lets) == 1 and ir.contains(lets[0]["init"], lambda z: z is rv) and not ir.contains(lets[0]["init"], lambda z: z.get("k") in ("bin", "un", "cast")) and \
                ir.local_hid(a) == lets[0]["pat"]["hid"]
            ok = direct or via
        ck.check(ok, rule, "prim|" + nm, "%s takes exactly varint() bytes" % nm, "%s does not pass the decoded length prefix unchanged to %s" % (nm, take), ir.loc(b))
    b = B["read_pbf_key"][0]
    shr = [n for n in ir.walk_nodes(b["body"]) if n.get("k") == "bin" and n.get("op") == ">>"]
    msk = [n for n in ir.walk_nodes(b["body"]) if n.get("k") == "bin" and n.get("op") == "&"]
    tup = [n for n in ir.walk_nodes(b["body"]) if n.get("k") == "tup"]
    ok = len(shr) == 1 and len(msk) == 1 and ir.const_eval(shr[0]["r"], {}) == 3 and ir.const_eval(msk[0]["r"], {}) == 7 and len(tup) == 1 and len(tup[0].get("es", tup[0].get("a", ()))) == 2 and \
        ir.strip(shr[0]["l"]).get("t") == "u64" and len([1 for _, _, m in _io_calls(b["body"]) if m == "read_varint"]) == 1
    if ok:
        es = tup[0].get("es", tup[0].get("a"))
        ok = ir.contains(es[0], lambda z: z is shr[0]) and ir.contains(es[1], lambda z: z is msk[0])
    ck.check(ok, rule, "prim|read_pbf_key", "read_pbf_key returns (varint >> 3, varint & 7)", "read_pbf_key does not split the key varint into (value >> 3, value & 7)", ir.loc(b))
    b = B["read_pbf_packed_uint32"][0]
    calls = [m for _, _, m in _io_calls(b["body"])]
    wl = [n for n in ir.walk_nodes(b["body"]) if n.get("k") == "while"]
    ok = len(wl) == 1 and sorted(calls) == sorted(["get_pbf_sub_reader", "has_remaining", "push", "read_varint"])
    if ok:
        c = ir.unparen(ir.strip(wl[0]["c"]))
        ok = c.get("k") == "mcall" and c.get("name") == "has_remaining" and sorted(m for _, _, m in _io_calls(wl[0]["body"])) == ["push", "read_varint"] and \
            not [n for n in ir.walk_nodes(wl[0]["body"]) if n.get("k") in ("if", "match", "break", "continue", "ret")]
    ck.check(ok, rule, "prim|read_pbf_packed_uint32", "packed uint32 is read as varints until the length-delimited sub reader is exhausted",
             "read_pbf_packed_uint32 is not `while sub.has_remaining() { push(sub.read_varint()) }` on the length-delimited sub reader (calls: %s)" % calls, ir.loc(b))


def zigzag_rules(ck, P, rule="R-PBF"):
    """sint64 (zigzag): decode = (n >>> 1) ^ -(n & 1) with a LOGICAL shift of the unsigned varint; encode = (v << 1) ^ (v >> 63)
    with an ARITHMETIC shift of the signed value.  Rust picks the shift kind from the operand type, so the rule is on types."""
    rd = [b for b in P.bodies if b["q"].endswith("io::value_reader::ValueReader::read_svarint")]
    wr = [b for b in P.bodies if b["q"].endswith("io::value_writer::ValueWriter::write_svarint")]
    if not ck.anchor(rule, "zigzag codec (read_svarint / write_svarint)", rd + wr, 2):
        return

    def shifts(b, op):
        return [n for n in ir.walk_nodes(b["body"]) if n.get("k") == "bin" and n.get("op") == op]
    r = shifts(rd[0], ">>")
    ok = len(r) == 1 and ir.strip(r[0]["l"]).get("t") == "u64" and ir.const_eval(r[0]["r"], {}) == 1
    x = [n for n in ir.walk_nodes(rd[0]["body"]) if n.get("k") == "bin" and n.get("op") == "^"]
    neg = [n for n in ir.walk_nodes(rd[0]["body"]) if n.get("k") == "un" and n.get("op") == "-" and ir.contains(n, lambda y: y.get("k") == "bin" and y.get("op") == "&" and ir.const_eval(y["r"], {}) == 1)]
    ck.check(ok and len(x) == 1 and len(neg) == 1, rule, "zigzag|decode", "sint64 decode is (n >> 1) ^ -(n & 1) with the shift applied to the unsigned varint (logical shift)",
             "sint64 decode shifts a value of type %s: an arithmetic shift sign-extends encoded values >= 2^63, so |v| >= 2^62 decodes to the wrong number" %
             (ir.strip(r[0]["l"]).get("t") if r else "?"), ir.loc(r[0]) if r else ir.loc(rd[0]))
    w = shifts(wr[0], ">>")
    l = shifts(wr[0], "<<")
    okw = len(w) == 1 and ir.strip(w[0]["l"]).get("t") == "i64" and ir.const_eval(w[0]["r"], {}) == 63 and len(l) == 1 and ir.const_eval(l[0]["r"], {}) == 1
    ck.check(okw, rule, "zigzag|encode", "sint64 encode is (v << 1) ^ (v >> 63) with an arithmetic shift of the signed value", "sint64 encode is not (v << 1) ^ (v >> 63) on i64", ir.loc(wr[0]))


def feature_write_rule(ck, P, rule="R-FEATURE-WRITE"):
    adt = [q for q in P.adts if q.endswith("vector_tile::feature::VectorTileFeature")]
    if not ck.anchor(rule, "VectorTileFeature", adt, 1):
        return
    A = adt[0]
    n_w = 0
    for b in P.bodies:
        inside = b.get("self_adt") == A
        for n in ir.walk_nodes(b["body"]):
            if n.get("k") in ("assign", "assignop") and n["l"].get("k") == "field" and "VectorTileFeature" in (n["l"]["e"].get("t", "") + n["l"]["e"].get("ta", "")):
                n_w += 1
                fld = n["l"]["name"]
                if fld in ("id", "geom_type", "geom_data") and not inside:
                    ck.violation(rule, "%s|%s" % (b["q"], fld), "feature field `%s` is written outside impl VectorTileFeature: id/geometry must only be set by decoding or construction" % fld, ir.loc(n))
            if n.get("k") == "struct" and n.get("q") == A and not inside:
                ck.violation(rule, b["q"] + "|literal", "VectorTileFeature is constructed outside its impl", ir.loc(n))
    ck.ok(rule, "census", "%d field writes on VectorTileFeature examined: id/geom_type/geom_data are only written inside impl VectorTileFeature" % n_w)
    # the id field (1) is written exactly when the feature has an id, with that id — `Some(0)` is an id, not a default to omit
    tb = [x for x in P.bodies if x["q"].endswith("vector_tile::feature::VectorTileFeature::to_blob")]
    if ck.anchor(rule, "VectorTileFeature::to_blob", tb, 1):
        b = tb[0]
        okid = False
        why = "no write of field 1"
        for n, parents, _ in ir.walk(b["body"]):
            if n.get("k") == "mcall" and n.get("name") == "write_pbf_key" and ir.const_eval(n["a"][0], {}) == 1:
                guards = [p_ for p_ in parents if p_.get("k") in ("if", "match")]
                if len(guards) != 1 or guards[0].get("k") != "if":
                    why = "field 1 is written under %d conditions" % len(guards)
                    break
                c = guards[0]["c"]
                is_opt = c.get("k") == "letx" and (c["pat"].get("q") or "").endswith("Option::Some::{Ctor#0}") and ir.place_str(c["init"]) == "self.id"
                bh = [x["hid"] for x in ir.pat_binds(c["pat"])] if c.get("k") == "letx" else []
                wv = [y for y in ir.walk_nodes(guards[0]["then"]) if y.get("k") == "mcall" and y.get("name") == "write_varint"]
                val_ok = len(wv) == 1 and ir.local_hid(wv[0]["a"][0]) in bh
                okid = is_opt and val_ok and "else" not in guards[0]
                why = "guard is `%s`, value from the guard's binding: %s" % (c.get("src") or ir.place_str(c.get("init", c)), val_ok)
                break
        ck.check(okid, rule, b["q"] + "|id-presence", "the id field is written exactly when self.id is Some(id), with that id",
                 "the id field is not written exactly for Some(id) (%s): a feature with the explicit id 0 loses it" % why, ir.loc(b))
    # property rewrites keep the relative order of features and touch only tag_ids
    for nm in ("filter_map_properties", "map_properties"):
        b = [x for x in P.bodies if x["q"].endswith("VectorTileLayer::" + nm)]
        if not ck.anchor(rule, nm, b, 1):
            continue
        b = b[0]
        bad = [n["name"] for n in ir.walk_nodes(b["body"]) if n.get("k") == "mcall" and n.get("name") in ("sort", "sort_by", "sort_by_key", "sort_unstable", "sort_unstable_by", "rev", "reverse", "dedup", "swap", "retain")]
        ck.check(not bad, rule, b["q"] + "|order", "retained features keep their relative order (into_iter/filter_map/map/collect only)", "feature order is changed by %s" % bad, ir.loc(b))
        wr = [n["l"]["name"] for n in ir.walk_nodes(b["body"]) if n.get("k") == "assign" and n["l"].get("k") == "field" and "VectorTileFeature" in (n["l"]["e"].get("t", "") + n["l"]["e"].get("ta", ""))]
        ck.check(wr == ["tag_ids"], rule, b["q"] + "|writes", "only tag_ids of a feature is rewritten", "feature fields written: %s" % wr, ir.loc(b))


def vtlp_rules(ck, P, rule="R-TABLE-INDEX"):
    """VTLPMap keeps `list` (index -> entry) and `map` (entry -> index) as inverse views: for every (v, i) in map, list[i] == v.
    The tag ids written into features are map values, and decoders resolve them through list positions."""
    tag_pair_rules(ck, P, rule)
    A = affine
    adts = [q for q in P.adts if q.endswith("vector_tile::property_manager::VTLPMap")]
    if not ck.anchor(rule, "VTLPMap", adts, 1):
        return
    adt = adts[0]
    meths = [b for b in P.bodies if b.get("self_adt") == adt and b["dk"] == "AssocFn"]
    ck.anchor(rule, "VTLPMap methods", meths, 4)

    def is_field(e, name):
        e = ir.strip(e)
        return e is not None and e.get("k") == "field" and e.get("name") == name and adt.rsplit("::", 1)[-1] in (ir.strip(e["e"]).get("t", "") + ir.strip(e["e"]).get("ta", ""))
    # (a) only VTLPMap's own methods mutate the two views
    outside = []
    for b in P.bodies:
        if b.get("self_adt") == adt or b.get("target") not in (None, "lib", "bin"):
            continue
        for n in ir.walk_nodes(b["body"]):
            if n.get("k") == "mcall" and n["recv"].get("ta", "").startswith("&mut") and (is_field(n["recv"], "list") or is_field(n["recv"], "map")):
                outside.append("%s (%s at %s)" % (b["q"], n["name"], ir.loc(n)))
            if n.get("k") in ("assign", "assignop") and (is_field(n["l"], "list") or is_field(n["l"], "map")):
                outside.append("%s (assignment at %s)" % (b["q"], ir.loc(n)))
    ck.check(not outside, rule, "owner", "only VTLPMap's own methods mutate `list` and `map`", "`list`/`map` are mutated outside VTLPMap: %s" % outside[:3])
    # (b) every method that grows the list records list position == map value
    growers = 0
    for b in meths:
        order = {id(n): i for i, n in enumerate(_eval_order(b["body"]))}
        pushes = [n for n in ir.walk_nodes(b["body"]) if n.get("k") == "mcall" and n.get("name") in ("push", "insert", "extend", "append", "remove", "pop", "clear", "truncate", "swap_remove", "retain", "sort", "sort_by", "dedup")
                  and is_field(n["recv"], "list") and n["recv"].get("ta", "").startswith("&mut")]
        inserts = [n for n in ir.walk_nodes(b["body"]) if n.get("k") == "mcall" and n.get("name") == "insert" and
                   (is_field(n["recv"], "map") or "VacantEntry" in (n.get("q") or ""))]
        other_map = [n for n in ir.walk_nodes(b["body"]) if n.get("k") == "mcall" and is_field(n["recv"], "map") and n["recv"].get("ta", "").startswith("&mut")
                     and n.get("name") not in ("insert", "entry", "get", "get_mut")]
        if not pushes and not inserts and not other_map:
            continue
        growers += 1
        key = b["q"]
        bad_ops = [n["name"] for n in pushes if n["name"] != "push"] + [n["name"] for n in other_map]
        if not ck.check(not bad_ops and len(pushes) == 1 and len(inserts) == 1, rule, key + "|one-push-one-insert", "one list.push and one map insert per new entry",
                        "list/map updates are not one push + one insert (%s pushes, %s inserts, other: %s)" % (len(pushes), len(inserts), bad_ops), ir.loc(b)):
            continue
        env = A.Env()
        A.run(ir.stmts_of(ir.fn_block(b)), env)
        val = inserts[0]["a"][-1]
        V = A.ev(val, env)
        lens = [n for n in ir.walk_nodes(b["body"]) if n.get("k") == "mcall" and n.get("name") == "len" and is_field(n["recv"], "list")]
        ok = False
        if len(lens) == 1:
            L = A.ev(lens[0], A.Env())
            before = order[id(lens[0])] < order[id(pushes[0])]
            ok = A.eq(V, L) and before or A.eq(V, A.sub(L, A.const(1))) and not before
        ck.check(ok, rule, key + "|index-is-position", "the index stored in `map` is the position the entry gets in `list` (list.len() taken before the push)",
                 "the index stored in `map` is `%s`, not the entry's position in `list`: once map.len() != list.len() (tables read with repeated entries) new entries get the id of another entry" % A.show(V),
                 ir.loc(inserts[0]))
        # same entry on both sides
        ps = [x for p in b["params"] for x in ir.pat_binds(p) if x["name"] != "self"]
        ph = ps[0]["hid"] if ps else None

        def roots(e):
            return {ir.local_hid(y) for y in ir.walk_nodes(e) if y.get("k") == "path" and y.get("r") == "local"}
        k_ok = True
        if is_field(inserts[0]["recv"], "map"):
            k_ok = ph in roots(inserts[0]["a"][0])
        else:
            ent = [n for n in ir.walk_nodes(b["body"]) if n.get("k") == "mcall" and n.get("name") == "entry" and is_field(n["recv"], "map")]
            k_ok = len(ent) == 1 and ph in roots(ent[0]["a"][0])
        pushed = pushes[0]["a"][0]
        p_ok = ph in roots(pushed) or ir.contains(pushed, lambda y: y.get("k") == "mcall" and y.get("name") == "key")
        ck.check(k_ok and p_ok, rule, key + "|same-entry", "the entry inserted into `map` is the entry pushed onto `list`", "map key and pushed entry are not the same value", ir.loc(b))
    ck.anchor(rule, "methods that add entries", list(range(growers)), 1)
    # (c) new(): map = { list[i] -> i }
    nw = [b for b in meths if b["q"].endswith("::new")]
    if ck.anchor(rule, "VTLPMap::new", nw, 1):
        b = nw[0]
        en = [n for n in ir.walk_nodes(b["body"]) if n.get("k") == "mcall" and n.get("name") == "enumerate"]
        ok = False
        if len(en) == 1:
            mp = [n for n in ir.walk_nodes(b["body"]) if n.get("k") == "mcall" and n.get("name") == "map" and n["a"] and n["a"][0].get("k") == "closure" and ir.contains(n["recv"], lambda y: y is en[0])]
            if len(mp) == 1:
                clo = mp[0]["a"][0]
                binds = [x for p in clo["params"] for x in ir.pat_binds(p)]
                t = ir.unparen(clo["body"])
                if len(binds) == 2 and t.get("k") == "tup" and len(t["es"]) == 2:
                    ih, eh = binds[0]["hid"], binds[1]["hid"]
                    ok = eh in {ir.local_hid(y) for y in ir.walk_nodes(t["es"][0])} and ir.local_hid(ir.strip(t["es"][1]) if ir.strip(t["es"][1]).get("k") != "cast" else ir.strip(t["es"][1])["e"]) == ih
                    src = ir.strip(en[0]["recv"])
                    lp_ = [x["hid"] for p_ in b["params"] for x in ir.pat_binds(p_) if x["t"].startswith("std::vec::Vec<")]
                    ok = ok and src.get("k") == "mcall" and src.get("name") == "iter" and ir.local_hid(src["recv"]) in lp_
        ck.check(ok, rule, b["q"] + "|enumerate", "new() maps each list element to its own position (list.iter().enumerate())", "new() does not build map = {list[i] -> i}", ir.loc(b))


def eq_hash_rules(ck, P, rule="R-TABLE-INDEX"):
    """The key/value tables are hash maps keyed by the property values.  A lookup is `hash, then ==`, so equality must agree with the
    hash (k1 == k2 => hash(k1) == hash(k2)) and be an equivalence (Eq): for a key type that carries floats and hashes their bit
    pattern, `==` must compare bit patterns / total order as well.  IEEE `==` (what derive(PartialEq) generates) says 0.0 == -0.0
    although they hash differently - whether the table then hands back the index of the other zero depends on the random hash seed -
    and NaN != NaN."""
    keyed = []
    for q, a in P.adts.items():
        if a.get("crate") != "versatiles_geometry":
            continue
        floats = [f["name"] or "#%d" % i for v in a["variants"] for i, f in enumerate(v["fields"]) if f["t"] in ("f32", "f64")]
        impls = {i.get("trait"): i for i in P.impls if i.get("self_adt") == q and i.get("trait")}
        if floats and "core::hash::Hash" in impls and "core::cmp::Eq" in impls:
            keyed.append((q, a, impls))
    if not ck.anchor(rule, "float-carrying key types (impl Hash + Eq)", keyed, 1):
        return
    for q, a, impls in keyed:
        hb = [P.fn(m["q"]) for m in impls["core::hash::Hash"]["methods"]]
        hb = [b for b in hb if b is not None]
        bits = any(ir.contains(b["body"], lambda y: y.get("k") == "mcall" and y.get("name") == "to_bits") for b in hb)
        pe = impls.get("core::cmp::PartialEq")
        derived = "core::marker::StructuralPartialEq" in impls
        ieee = []
        if pe is not None:
            for m in pe["methods"]:
                b = P.fn(m["q"])
                if b is None:
                    continue
                for n in ir.walk_nodes(b["body"]):
                    if n.get("k") == "bin" and n.get("op") in ("==", "!="):
                        t = (ir.strip(n["l"]).get("t") or "").replace("&", "").strip()
                        if t in ("f32", "f64"):
                            ieee.append(ir.loc(n))
        ok = bits and not derived and not ieee
        ck.check(ok, rule, q + "|eq-agrees-with-hash", "equality of the table key type compares floats the way its hash does (bit pattern / total order), so a lookup finds exactly the stored value",
                 "%s is a hash-map key with float payloads whose Hash %s but whose == is %s: 0.0 == -0.0 with different hashes (the value table hands back the index of the other zero "
                 "depending on the hash seed: a stored -0.0 comes back as 0.0) and NaN != NaN" %
                 (q, "hashes the bit pattern" if bits else "does not hash the bit pattern", "derived (IEEE comparison of the floats)" if derived else ("IEEE comparison at %s" % ieee[:2] if ieee else "ok")),
                 ir.loc(hb[0]) if hb else None)


def total_order_rules(ck, P, rule="R-TOTAL-ORDER"):
    """Property tables are rebuilt with slice::sort_unstable_by over the property values; since Rust 1.81 the sort panics
    when the comparator is not a total order.  Every workspace `Ord::cmp` reachable from a sort must therefore be total:
    comparing floats through partial_cmp(..).unwrap_or(Equal) makes NaN equal to everything (not transitive)."""
    sorts = []
    for b in P.bodies:
        if not P.is_workspace(b["q"]) or "::tests::" in b["q"] or b.get("crate") != "versatiles_geometry":
            continue
        for n in ir.walk_nodes(b["body"]):
            if n.get("k") == "mcall" and n.get("name", "").startswith(("sort", "binary_search", "max_by", "min_by")) and ir.contains(n, lambda y: (y.get("q") or "").endswith("cmp::Ord::cmp")):
                sorts.append((b, n))
    ck.anchor(rule, "sorts that use Ord::cmp of workspace types (versatiles_geometry)", sorts, 1)
    ords = [b for b in P.bodies if b.get("trait_item", "").endswith("cmp::Ord::cmp") and P.is_workspace(b["q"]) and b.get("crate") == "versatiles_geometry"]
    if not ck.anchor(rule, "impl Ord in versatiles_geometry", ords, 1):
        return
    for b in ords:
        bad = []
        for n in ir.walk_nodes(b["body"]):
            if n.get("k") == "mcall" and n.get("name") == "partial_cmp":
                t = (n["recv"].get("t") or "") + (n["recv"].get("ta") or "")
                if "f32" in t or "f64" in t:
                    bad.append(ir.loc(n))
        ck.check(not bad, rule, b["q"], "Ord::cmp compares floats with a total order (total_cmp)",
                 "Ord::cmp compares floats with partial_cmp(..).unwrap_or(..) at %s: NaN compares Equal to every float, the order is not transitive and "
                 "sort_unstable_by (PropertyManager::from_iter) panics with 'does not correctly implement a total order' for layers holding NaN values" % bad, ir.loc(b))
