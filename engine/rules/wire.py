"""Record-layout and code-table extraction (R-WIRE, R-CODE) with the E3 oracle tables transcribed from the published
formats (versatiles v02, PMTiles v3). Shared by C01 and C16."""
from . import absint, ir

WIDTH = {"u8": 1, "i8": 1, "u16": 2, "i16": 2, "u32": 4, "i32": 4, "u64": 8, "i64": 8, "f32": 4, "f64": 8, "range": 16}

# ---- E3: independent of the repository -------------------------------------------------------------------------
SPEC_LAYOUT = {
    "versatiles.header": {"order": "be", "len": 66, "fields": [("bytes14", "magic"), ("u8", "tile_format"), ("u8", "compression"), ("u8", "zoom"), ("u8", "zoom"),
                                                            ("i32", "bbox"), ("i32", "bbox"), ("i32", "bbox"), ("i32", "bbox"), ("range", "meta"), ("range", "blocks")]},
    "versatiles.block": {"order": "be", "len": 33, "fields": [("u8", "z"), ("u32", "x"), ("u32", "y"), ("u8", "x_min"), ("u8", "y_min"), ("u8", "x_max"), ("u8", "y_max"),
                                                            ("u64", "offset"), ("u64", "length"), ("u32", "length")]},
    "versatiles.tile_index_entry": {"order": "be", "len": 12, "fields": [("u64", "offset"), ("u32", "length")]},
    "pmtiles.header": {"order": "le", "len": 127, "fields": [("bytes7", "magic"), ("u8", "version"),
                                                           ("u64", "root_dir"), ("u64", "root_dir"), ("u64", "metadata"), ("u64", "metadata"), ("u64", "leaf_dirs"), ("u64", "leaf_dirs"),
                                                           ("u64", "tile_data"), ("u64", "tile_data"), ("u64", "addressed_tiles"), ("u64", "tile_entries"), ("u64", "tile_contents"),
                                                           ("u8", "clustered"), ("u8", "internal_compression"), ("u8", "tile_compression"), ("u8", "tile_type"), ("u8", "min_zoom"), ("u8", "max_zoom"),
                                                           ("i32", "min_lon"), ("i32", "min_lat"), ("i32", "max_lon"), ("i32", "max_lat"), ("u8", "center_zoom"), ("i32", "center_lon"), ("i32", "center_lat")]},
}
SPEC_CODES = {
    "versatiles.tile_format": {"BIN": 0x00, "PNG": 0x10, "JPG": 0x11, "WEBP": 0x12, "AVIF": 0x13, "SVG": 0x14, "PBF": 0x20, "GEOJSON": 0x21, "TOPOJSON": 0x22, "JSON": 0x23},
    "versatiles.compression": {"Uncompressed": 0, "Gzip": 1, "Brotli": 2},
    "pmtiles.compression": {"Unknown": 0, "None": 1, "Gzip": 2, "Brotli": 3, "Zstd": 4},
    "pmtiles.tile_type": {"UNKNOWN": 0, "MVT": 1, "PNG": 2, "JPEG": 3, "WEBP": 4, "AVIF": 5},
    "pmtiles.compression_map": {"Uncompressed": "None", "Gzip": "Gzip", "Brotli": "Brotli"},
    "pmtiles.type_map": {"PBF": "MVT", "PNG": "PNG", "JPG": "JPEG", "WEBP": "WEBP", "AVIF": "AVIF"},
    "mbtiles.format": {"jpg": ("JPG", "Uncompressed"), "pbf": ("PBF", "Gzip"), "png": ("PNG", "Uncompressed"), "webp": ("WEBP", "Uncompressed")},
}
MAGIC = {"versatiles.header": "versatiles_v02", "pmtiles.header": "PMTiles"}


def _eval_order(n):
    for c in ir.children(n):
        yield from _eval_order(c)
    yield n


def _last_name(e):
    """last meaningful segment of the value written / the destination read into"""
    e = ir.strip(e)
    while e is not None and e.get("k") in ("cast", "try"):
        e = ir.strip(e["e"])
    if e is None:
        return "?"
    if e.get("k") == "index":
        return _last_name(e["e"])
    if e.get("k") == "field":
        return e["name"] if not e["name"].isdigit() else _last_name(e["e"])
    if e.get("k") == "path":
        return e.get("name") or "?"
    if e.get("k") == "mcall":
        return _last_name(e["recv"])
    return "?"


def _path(e):
    e = ir.strip(e)
    while e is not None and e.get("k") in ("cast", "try"):
        e = ir.strip(e["e"])
    return ir.place_str(e) if e is not None else "?"


def writer_seq(b):
    """[(prim, name, node)] of ValueWriter calls in evaluation order; byte order"""
    seq, order = [], None
    for n in _eval_order(b["body"]):
        if n.get("k") == "call" and (n.get("q") or "").endswith(("::new_be", "::new_le")) and "ValueWriter" in (n.get("q") or ""):
            order = n["q"][-2:]
        if n.get("k") != "mcall" or not (n.get("q") or "").startswith("versatiles_core::io::value_writer::ValueWriter::write_"):
            continue
        prim = n["name"][len("write_"):]
        if prim == "slice":
            lit = [y for y in ir.walk_nodes(n["a"][0]) if y.get("k") == "lit" and y.get("lk") == "bytes"]
            ln = len(lit[0]["v"]) // 2 if lit else None
            seq.append(("bytes%s" % ln, bytes.fromhex(lit[0]["v"]).decode("latin1") if lit else "?", n))
        elif prim in WIDTH or prim in ("varint", "svarint"):
            a = n["a"][0]
            # a `match` argument (code table) names the scrutinee's field
            m = [y for y in ir.walk_nodes(a) if y.get("k") == "match"]
            name = _path(m[0]["e"]) if m else _path(a)
            seq.append((prim, name, n))
    return seq, order


def reader_seq(b, P=None):
    """[(prim, destination path, node)] of ValueReader calls in evaluation order; byte order.
    The destination path collects, from the outside in: struct field / let binding / assignment target, then the
    parameter name of a workspace constructor the value is passed to (ByteRange::new(offset, length))."""
    seq, order = [], None
    dest = {}

    def is_read(y):
        return y.get("k") == "mcall" and (y.get("q") or "").startswith("versatiles_core::io::value_reader::ValueReader::read_")

    def mark(n, name):
        for y in ir.walk_nodes(n):
            if is_read(y):
                dest.setdefault(id(y), []).append(name)
    for n in ir.walk_nodes(b["body"]):      # pre-order: outer contexts are visited first
        if n.get("k") == "struct":
            for f in n["fields"]:
                mark(f["e"], f["name"])
        elif n.get("k") == "let" and "init" in n:
            bs = ir.pat_binds(n["pat"])
            if len(bs) == 1:
                mark(n["init"], bs[0]["name"])
        elif n.get("k") == "assign":
            mark(n["r"], _last_name(n["l"]))
        elif n.get("k") == "call" and P is not None and n.get("q") in P.by_q:
            params = [ir.pat_binds(p) for p in P.fn(n["q"]).get("params", ())]
            for a, pb in zip(n.get("a", ()), params):
                if pb:
                    mark(a, pb[0]["name"])
    # one hop through a let: `let a = r.read_u8()?; …; TileBBox::new(z, a, …)` gives the read the parameter name it reaches
    if P is not None:
        let_of = {}
        for n in ir.walk_nodes(b["body"]):
            if n.get("k") == "let" and "init" in n and n["pat"].get("k") == "bind":
                rd = [y for y in ir.walk_nodes(n["init"]) if is_read(y)]
                if len(rd) == 1:
                    let_of[n["pat"]["hid"]] = rd[0]
        for n in ir.walk_nodes(b["body"]):
            if n.get("k") == "call" and n.get("q") in P.by_q:
                params = [ir.pat_binds(p) for p in P.fn(n["q"]).get("params", ())]
                for a, pb in zip(n.get("a", ()), params):
                    x = ir.strip(a)
                    while x is not None and x.get("k") in ("cast", "try"):
                        x = ir.strip(x["e"])
                    if pb and x is not None and x.get("k") == "path" and x.get("r") == "local" and x["hid"] in let_of:
                        dest.setdefault(id(let_of[x["hid"]]), []).append(pb[0]["name"])
    for n in _eval_order(b["body"]):
        if n.get("k") == "call" and (n.get("q") or "").endswith(("::new_be", "::new_le")) and "ValueReader" in (n.get("q") or ""):
            order = n["q"][-2:]
        if is_read(n):
            prim = n["name"][len("read_"):]
            name = ".".join(dest.get(id(n), ["?"]))
            if prim == "string" and n.get("a"):
                ln = ir.const_eval(n["a"][0], {})
                seq.append(("bytes%s" % ln, name, n))
            elif prim in WIDTH or prim in ("varint", "svarint"):
                seq.append((prim, name, n))
    return seq, order


GENERIC = {"offset", "length", "range", "self", "e7", "value", "val", "len"}


def _tokens(name):
    out = set()
    for seg in name.replace("[]", "").replace("()", "").split("."):
        for t in seg.lower().split("_"):
            if t and not t.isdigit():
                out.add(t.rstrip("s") if len(t) > 3 else t)
    return out - {"self"}


def names_match(a, b):
    """do a written value path and a read destination path denote the same field?"""
    if "?" not in a and "?" not in b:
        sa_ = [_tokens(x) - GENERIC for x in a.replace("[]", "").replace("()", "").split(".")]
        sb_ = [_tokens(x) - GENERIC for x in b.replace("[]", "").replace("()", "").split(".")]
        if any(x and x == y for x in sa_ for y in sb_):
            return True
    ta, tb = _tokens(a), _tokens(b)
    if not ta or not tb or "?" in a or "?" in b:
        return False
    common = ta & tb
    sa, sb = ta - GENERIC, tb - GENERIC
    if sa and sb:
        return sa <= sb or sb <= sa
    return bool(common)


def width(seq):
    w = 0
    for p, _, _ in seq:
        if p.startswith("bytes"):
            w += int(p[5:]) if p[5:].isdigit() else 0
        else:
            w += WIDTH.get(p, 0)
    return w


def check_record(ck, rule, key, wseq, word, rseq, rord, spec, loc_w, loc_r, skip_reader_prefix=0):
    """writer/reader sibling agreement and agreement with the spec layout"""
    wt = [p for p, _, _ in wseq]
    rt = [p for p, _, _ in rseq]
    st = [p for p, _ in spec["fields"]]
    ck.check(word == rord == spec["order"], rule, key + "|byte-order", "writer and reader use %s byte order, as specified" % spec["order"], "byte order: writer %s, reader %s, spec %s" % (word, rord, spec["order"]), loc_w)
    ck.check(wt == st, rule, key + "|writer-layout", "writer emits the specified field widths in order (%d fields, %d bytes)" % (len(st), spec["len"]),
             "writer field sequence %s differs from the published layout %s" % (wt, st), loc_w)
    rcmp = st[skip_reader_prefix:]
    ck.check(rt == rcmp, rule, key + "|reader-layout", "reader consumes the specified field widths in order", "reader field sequence %s differs from the published layout %s" % (rt, rcmp), loc_r)
    ck.check(width(wseq) == spec["len"], rule, key + "|length", "record length is %d bytes" % spec["len"], "writer emits %d bytes, spec says %d" % (width(wseq), spec["len"]), loc_w)
    # field-by-field names: writer vs reader vs spec
    bad = []
    wn = [nm for _, nm, _ in wseq][skip_reader_prefix:]
    rn = [nm for _, nm, _ in rseq]
    sn = [nm for _, nm in spec["fields"]][skip_reader_prefix:]
    for i, (a, b_, c) in enumerate(zip(wn, rn, sn)):
        if wseq[i + skip_reader_prefix][0].startswith("bytes"):
            continue
        if not names_match(a, b_):
            bad.append("field %d: written from `%s`, read into `%s`" % (i + skip_reader_prefix, a, b_))
    badw = ["field %d: `%s` written where the layout has `%s`" % (i + skip_reader_prefix, a, c) for i, (a, c) in enumerate(zip(wn, sn))
            if not wseq[i + skip_reader_prefix][0].startswith("bytes") and not names_match(a, c)]
    ck.check(not badw, rule, key + "|writer-fields", "each written field is the member the specification names at that offset (%d fields)" % len(wn),
             "the writer puts members at offsets the published layout assigns to other members: %s" % badw[:4], loc_w)
    badr = ["field %d: read into `%s` where the layout has `%s`" % (i + skip_reader_prefix, b_, c) for i, (b_, c) in enumerate(zip(rn, sn))
            if not rseq[i][0].startswith("bytes") and not names_match(b_, c)]
    ck.check(not badr, rule, key + "|reader-fields", "each decoded field lands in the member the specification names at that offset",
             "fields decoded into the wrong member: %s" % badr[:4], loc_r)
    ck.check(not bad, rule, key + "|field-pairing", "the i-th written field is the i-th read field (%d fields)" % len(wn), "writer/reader field order disagrees: %s" % bad[:4], loc_r)


def match_table(n):
    """{key: value} of a match whose arms map variants to ints or ints to variants (or strings)"""
    out = {}
    for a in n["arms"]:
        p = a["pat"]
        pats = p["ps"] if p.get("k") == "or" else [p]
        body = ir.unparen(a["body"])
        if body.get("k") == "call" and (body.get("q") or "").endswith(("Result::Ok::{Ctor#0}", "Option::Some::{Ctor#0}")) and body.get("a"):
            body = ir.unparen(body["a"][0])
        val = None
        if body.get("k") == "lit":
            val = body.get("v")
        elif body.get("k") in ("path", "call") and body.get("q"):
            val = absint.vname(body["q"]).rsplit("::", 1)[-1]
        for pt in pats:
            if pt.get("k") == "expr" and pt["e"].get("k") == "lit":
                out[pt["e"]["v"]] = val
            elif pt.get("k") in ("expr", "tstruct", "struct") and (pt.get("q") or pt.get("e", {}).get("q")):
                out[absint.vname(pt.get("q") or pt["e"]["q"]).rsplit("::", 1)[-1]] = val
    return out


def enum_discriminants(P, suffix):
    for q, a in P.adts.items():
        if q.endswith(suffix) and a["kind"] == "enum":
            return {v["name"]: v.get("discr") for v in a["variants"]}
    return None


def block_geometry_rules(ck, P, rule="R-BLOCK-GEOM"):
    """versatiles block definition: the stored local box and the block position determine the global box by
    global = local + 256 * (x, y) per axis; the writer's constructor computes the inverse (x = min / 256, local = global - 256 x).
    Decided on polynomial terms, so any consistent rewriting of the arithmetic passes and any wrong factor/axis fails."""
    from . import affine as A
    rd = [b for b in P.bodies if b["q"].endswith("block_definition::BlockDefinition::from_blob")]
    nw = [b for b in P.bodies if b["q"].endswith("block_definition::BlockDefinition::new")]
    if not ck.anchor(rule, "BlockDefinition::{from_blob,new}", rd + nw, 2):
        return
    B = 256
    # ---- reader
    b = rd[0]
    env = A.Env()
    A.run(ir.stmts_of(ir.fn_block(b)), env)
    seq, _ = reader_seq(b, P)
    names = {}
    for prim, nm, node in seq:
        names.setdefault(nm.split(".")[0], node)
    calls = [n for n in ir.walk_nodes(b["body"]) if n.get("k") == "call" and (n.get("q") or "").endswith("TileBBox::new") and len(n["a"]) == 5]
    # the i-th primitive read is, by R-WIRE, the i-th field of the published layout: name the locals by that role
    lets = {}
    roles = [nm for _, nm in SPEC_LAYOUT["versatiles.block"]["fields"]]
    for (prim, _nm, node), role in zip(seq, roles):
        for n in ir.walk_nodes(b["body"]):
            if n.get("k") == "let" and "init" in n and n["pat"].get("k") == "bind" and ir.contains(n["init"], lambda y: y is node):
                lets.setdefault(role, n["pat"])

    def S(nm):
        return A.local_sym(lets[nm]) if nm in lets else A.TOP
    env0 = A.Env()   # read locals stay symbolic
    glob = None
    for c in calls:
        ts = [A.ev(a, env0) for a in c["a"]]
        if any(("sym", (lets[nm]["hid"], lets[nm]["name"])) in m for t in ts[1:] if t is not A.TOP for m in t for nm in ("x", "y") if nm in lets):
            glob = (c, ts)
    ok = False
    why = "no TileBBox::new combining the local box with the block position"
    if glob is not None and all(nm in lets for nm in ("x", "y", "z", "x_min", "y_min", "x_max", "y_max")):
        pass
    if glob is not None and all(nm in lets for nm in ("x", "y", "z", "x_min", "y_min", "x_max", "y_max")):
        c, ts = glob
        bx, by = A.mul(S("x"), A.const(B)), A.mul(S("y"), A.const(B))
        want = [S("z"), A.add(S("x_min"), bx), A.add(S("y_min"), by), A.add(S("x_max"), bx), A.add(S("y_max"), by)]
        ok = all(A.eq(t, w) for t, w in zip(ts, want))
        why = "global box arguments are (%s)" % ", ".join(A.show(t) for t in ts)
    ck.check(ok, rule, "reader|global-box", "reader: global box = (z, x_min + 256x, y_min + 256y, x_max + 256x, y_max + 256y)", "reader: %s" % why, ir.loc(glob[0]) if glob else ir.loc(b))
    # the fields read first are z, x, y, then x_min, y_min, x_max, y_max (order is R-WIRE); the struct stores the same values
    st = [n for n in ir.walk_nodes(b["body"]) if n.get("k") == "struct" and (n.get("q") or "").endswith("BlockDefinition")]
    ok_off = False
    if st:
        off = [f for f in st[0]["fields"] if f["name"] == "offset"]
        if off:
            cn = [y for y in ir.walk_nodes(off[0]["e"]) if y.get("k") == "call" and (y.get("q") or "").endswith("TileCoord3::new")]
            ok_off = bool(cn) and [ir.local_hid(a) for a in cn[0]["a"]] == [lets[k_]["hid"] if k_ in lets else -1 for k_ in ("x", "y", "z")]
    ck.check(ok_off, rule, "reader|offset", "reader: block position = TileCoord3::new(x, y, z) of the values read", "reader: block position is not (x, y, z)", ir.loc(b))
    # ---- writer-side constructor
    b = nw[0]
    env = A.Env()
    A.run(ir.stmts_of(ir.fn_block(b)), env)
    calls = [n for n in ir.walk_nodes(b["body"]) if n.get("k") == "call" and (n.get("q") or "").endswith("TileBBox::new") and len(n["a"]) == 5]
    pb = [x for p in b["params"] for x in ir.pat_binds(p)]
    ok = False
    why = "no local box construction"
    if calls and pb:
        Pb = (pb[0]["hid"], pb[0]["name"])

        def F(f):
            return A.sym((Pb, "." + f))
        qx = A.atom(("div", A.freeze(F("x_min")), B))
        qy = A.atom(("div", A.freeze(F("y_min")), B))
        ts = [A.ev(a, env) for a in calls[0]["a"]]
        want = [None, A.sub(F("x_min"), A.mul(qx, A.const(B))), A.sub(F("y_min"), A.mul(qy, A.const(B))), A.sub(F("x_max"), A.mul(qx, A.const(B))), A.sub(F("y_max"), A.mul(qy, A.const(B)))]
        ok = all(A.eq(t, w) for t, w in list(zip(ts, want))[1:])
        why = "local box arguments are (%s)" % ", ".join(A.show(t) for t in ts[1:])
        # position = (x_min / 256, y_min / 256, level)
        cn = [y for y in ir.walk_nodes(b["body"]) if y.get("k") == "call" and (y.get("q") or "").endswith("TileCoord3::new")]
        okp = bool(cn) and A.eq(A.ev(cn[0]["a"][0], env), qx) and A.eq(A.ev(cn[0]["a"][1], env), qy) and A.eq(A.ev(cn[0]["a"][2], env), F("level"))
        ck.check(okp, rule, "writer|position", "writer: block position = (x_min / 256, y_min / 256, level)", "writer: block position is not (x_min / 256, y_min / 256, level)", ir.loc(b))
    ck.check(ok, rule, "writer|local-box", "writer: local box = global box - 256 * block position, per axis", "writer: %s" % why, ir.loc(b))


def _resolve_const_calls(P, t):
    """replace ("fn", name) atoms of zero-argument functions whose body is one integer literal (HeaderV3::len()) by the literal"""
    from . import affine as A
    from . import boxalg
    if t is A.TOP:
        return t
    m = {}
    for mono in t:
        for a in mono:
            if a[0] == "fn" and len(a) == 2:
                cands = [b for b in P.bodies if b["q"].endswith("::" + a[1]) and not [p for p in b.get("params", ())]]
                vals = set()
                for b in cands:
                    e = ir.unparen(ir.fn_block(b))
                    e = ir.unparen(e)
                    c = ir.const_eval(e, {}) if e is not None else None
                    if c is not None:
                        vals.add(c)
                if len(vals) == 1 and len(cands) >= 1:
                    m[a] = A.const(vals.pop())
    if not m:
        return t
    out = {}
    for mono, c in t.items():
        term = {(): c}
        for a in mono:
            term = A.mul(term, m.get(a, A.atom(a)))
        out = A.add(out, term)
    return out


def pm_layout_rules(ck, P, rule="R-PM-LAYOUT"):
    """PMTiles writer: the sections of the file do not overlap.  The root directory is written LAST into the gap between the
    header and the first appended section, so
        (a) position of the root  >=  length of the header,
        (b) position of the root + the size limit handed to the directory builder  <=  position of the first appended section,
        (c) the directory builder returns only when the serialised root is within the limit it was given.
    Positions and limits are terms (affine.py); (a) and (b) are decided on their difference, which must be a known constant."""
    from . import affine as A
    from . import census
    w = None
    for i in P.impls_of("::TilesWriterTrait"):
        if i.get("self_adt", "").endswith("::PMTilesWriter"):
            w = P.impl_method(i, "write_to_writer", inline=False) if "inline" in P.impl_method.__code__.co_varnames else P.impl_method(i, "write_to_writer")
    ad = [b for b in P.bodies if b["q"].endswith("entries_v3::EntriesV3::as_directory")]
    if not ck.anchor(rule, "PMTilesWriter::write_to_writer + EntriesV3::as_directory", ([w] if w else []) + ad, 2):
        return
    blk = ir.fn_block(w)
    env = A.Env()
    seq = []          # ("pos", term, node) | ("append", arg, node) | ("dir", limit term, node, bound local hid)

    def scan(stmts):
        for st in stmts:
            x = st["e"] if st.get("k") == "semi" else st
            for y in ir.walk_nodes(x):
                if y.get("k") == "mcall" and (y.get("q") or "").endswith("DataWriterTrait::set_position") and y.get("a"):
                    seq.append(("pos", _resolve_const_calls(P, A.ev(y["a"][0], env)), y))
                elif y.get("k") == "mcall" and (y.get("q") or "").endswith("DataWriterTrait::append") and y.get("a"):
                    seq.append(("append", y["a"][0], y))
                elif y.get("k") == "mcall" and (y.get("q") or "").endswith("EntriesV3::as_directory") and y.get("a"):
                    seq.append(("dir", _resolve_const_calls(P, A.ev(y["a"][0], env)), y))
                elif y.get("k") == "mcall" and (y.get("q") or "").endswith("DataWriterTrait::write_start"):
                    seq.append(("start", None, y))
            A.run([st], env)
    scan(ir.stmts_of(blk))
    kinds = [s[0] for s in seq]
    key = w["q"]
    pos = [s for s in seq if s[0] == "pos"]
    dirs = [s for s in seq if s[0] == "dir"]
    if not ck.check(len(dirs) == 1 and len(pos) >= 2 and kinds and kinds[0] == "pos", rule, key + "|shape",
                    "the writer first seeks past the reserved area, builds one directory and seeks back for the root (%s)" % kinds,
                    "unexpected sequence of position/append calls %s" % kinds, ir.loc(w)):
        return
    first = pos[0][1]
    # the root position: the set_position that is followed by the append of `.root_bytes`
    root_pos = None
    for i, s in enumerate(seq):
        if s[0] == "append" and ir.contains(s[1], lambda y: y.get("k") == "field" and y.get("name") == "root_bytes"):
            prev = [t for t in seq[:i] if t[0] == "pos"]
            root_pos = prev[-1][1] if prev else None
            between = [t[0] for t in seq[seq.index(prev[-1]) + 1:i]] if prev else ["?"]
            if "append" in between:
                root_pos = None
    if not ck.check(root_pos is not None, rule, key + "|root-position", "the root directory is appended right after a seek", "the root directory is not written at an explicit position", ir.loc(w)):
        return
    limit = dirs[0][1]
    hdr = [b for b in P.bodies if b["q"].endswith("header_v3::HeaderV3::len")]
    hlen = _resolve_const_calls(P, A.atom(("fn", "len"))) if hdr else A.TOP
    hl = ir.const_eval(ir.unparen(ir.unparen(ir.fn_block(hdr[0]))), {}) if hdr else None
    hlen = A.const(hl) if hl is not None else A.TOP
    da = A.as_const(A.sub(root_pos, hlen)) if hlen is not A.TOP else None
    ck.check(da is not None and da >= 0, rule, key + "|root-after-header", "the root directory starts at or after the end of the %s-byte header (position %s)" % (hl, A.show(root_pos)),
             "the root directory is written at %s, which is not provably at or behind the %s-byte header" % (A.show(root_pos), hl), ir.loc(w))
    db = A.as_const(A.sub(first, A.add(root_pos, limit)))
    ck.check(db is not None and db >= 0, rule, key + "|root-fits", "root position + root size limit <= first appended section (%s + %s <= %s)" % (A.show(root_pos), A.show(limit), A.show(first)),
             "the root directory may be up to %s bytes long at position %s, but the next section (metadata) already starts at %s: a root directory close to the limit overwrites the start of the metadata" % (
                 A.show(limit), A.show(root_pos), A.show(first)), ir.loc(dirs[0][2]))
    # (c) the builder honours its limit
    b = ad[0]
    lim_p = [p for p in b.get("params", ()) if p.get("k") == "bind" and p.get("name") != "self"]
    lim_name = lim_p[0]["name"] if lim_p else None
    rets = census.nodes_with_facts(ir.fn_block(b), lambda n: n.get("k") == "ret")
    tail = ir.fn_block(b).get("tail")
    bad = []
    n_ok = 0
    for n, facts in rets:
        e = n.get("e")
        if e is None or not ir.contains(e, lambda y: y.get("k") == "call" and (y.get("q") or "").endswith("Ok::{Ctor#0}")):
            continue
        # what is returned as the root: the `root_bytes` initialiser of a Directory literal, or <returned local>.root_bytes
        okc = [y for y in ir.walk_nodes(e) if y.get("k") == "call" and (y.get("q") or "").endswith("Ok::{Ctor#0}")][0]
        rv = ir.strip(okc["a"][0]) if okc.get("a") else None
        root = None
        if rv is not None and rv.get("k") == "struct":
            fi = [f_ for f_ in rv.get("fields", ()) if f_["name"] == "root_bytes"]
            root = ir.place_str(fi[0]["e"]) if fi else None
        elif rv is not None and rv.get("k") == "path":
            root = ir.place_str(rv) + ".root_bytes"
        want = (root + ".len()") if root else None
        okf = any(f[0] == "cmp" and lim_name is not None and want is not None and ((f[3] == lim_name and f[2] in ("<=", "<") and f[1] == want) or
                                                                                       (f[1] == lim_name and f[2] in (">=", ">") and f[3] == want)) for f in facts)
        if okf:
            n_ok += 1
        else:
            bad.append(ir.loc(n))
    tail_ok = tail is None or tail.get("k") in ("loop",) or not ir.contains(tail, lambda y: y.get("k") == "call" and (y.get("q") or "").endswith("Ok::{Ctor#0}"))
    ck.check(n_ok >= 1 and not bad and tail_ok, rule, b["q"] + "|limit-honoured", "every successful return of as_directory is dominated by root_bytes.len() <= %s (%d returns)" % (lim_name, n_ok),
             "as_directory can return a root directory without having compared its length with the limit (%s)" % (bad or "value returned at the end of the function"), ir.loc(b))



def pm_directory_codec_rules(ck, P, rule="R-PM-DIR"):
    """PMTiles v3 directory columns, writer (serialize_entries) and reader (from_blob) against the published encoding:
       count first; tile ids as deltas to the previous id (running value starts at 0 and is updated to the id just written / is
       the running sum when read); run lengths and lengths verbatim, one value per entry; offsets as offset + 1, or 0 exactly when
       the entry starts where the previous one ends (never for the first entry).  Terms from affine.py."""
    from . import affine as A
    se = [b for b in P.bodies if b["q"].endswith("entries_v3::EntriesSliceV3::serialize_entries")]
    fb = [b for b in P.bodies if b["q"].endswith("entries_v3::EntriesV3::from_blob")]
    if not ck.anchor(rule, "serialize_entries + from_blob", se + fb, 2):
        return
    b = se[0]
    loops = [n for n in ir.walk_nodes(ir.fn_block(b)) if n.get("k") == "for"]
    top = ir.stmts_of(ir.fn_block(b))
    wv = lambda n_: [y for y in ir.walk_nodes(n_) if y.get("k") == "mcall" and y.get("name") == "write_varint"]   # noqa: E731
    # count first
    first_w = next((st for st in top if wv(st)), None)
    okc = first_w is not None and first_w.get("k") != "for" and len(wv(first_w)) == 1 and "len" in A.show(A.ev(wv(first_w)[0]["a"][0], _env_of(b)))
    ck.check(okc and len(loops) == 4, rule, "writer|count-first", "the entry count is written before the four columns", "the directory does not start with the entry count followed by four column loops (%d loops)" % len(loops), ir.loc(b))
    if len(loops) != 4:
        return
    # ids
    lp = loops[0]
    ent = ir.pat_binds(lp["pat"])
    w = wv(lp["body"])
    oki, why = False, ""
    if len(ent) == 1 and len(w) == 1:
        env = A.Env()
        A.run(ir.stmts_of(lp["body"]), env)
        # state variable: the local assigned in the loop body
        asg = [y for y in ir.walk_nodes(lp["body"]) if y.get("k") == "assign" and y["l"].get("k") == "path"]
        if len(asg) == 1:
            sv = ir.local_hid(asg[0]["l"])
            env0 = A.Env()
            written = None
            for st in ir.stmts_of(lp["body"]):
                x = st["e"] if st.get("k") == "semi" else st
                if ir.contains(x, lambda y: y is w[0]):
                    written = A.ev(w[0]["a"][0], env0)
                A.run([st], env0)
            tid = A.sym(((ent[0]["hid"], ent[0]["name"]), ".tile_id"))
            prev = A.sym((sv, ir.strip(asg[0]["l"])["name"]))
            init = [y for y in ir.walk_nodes(ir.fn_block(b)) if y.get("k") == "let" and y["pat"].get("k") == "bind" and y["pat"]["hid"] == sv]
            oki = written is not None and A.eq(written, A.sub(tid, prev)) and A.eq(env0.m.get(sv), tid) and bool(init) and ir.const_eval(init[0].get("init"), {}) == 0
            why = "written %s, state becomes %s" % (A.show(written), A.show(env0.m.get(sv)))
    ck.check(oki, rule, "writer|id-deltas", "tile ids are written as id - previous id, previous starts at 0 and becomes the id just written", "tile id column is not delta-encoded as published (%s)" % why, ir.loc(lp))
    # run lengths / lengths
    for k_, fld in ((1, ".run_length"), (2, ".range.length")):
        lp = loops[k_]
        ent = ir.pat_binds(lp["pat"])
        w = wv(lp["body"])
        okv = len(ent) == 1 and len(w) == 1 and A.show(A.ev(w[0]["a"][0], A.Env())) == ent[0]["name"] + fld and not [y for y in ir.walk_nodes(lp["body"]) if y.get("k") in ("if", "continue", "break")]
        ck.check(okv, rule, "writer|" + fld.strip("."), "column %s is written verbatim, one value per entry" % fld, "column %s is not written verbatim for every entry" % fld, ir.loc(lp))
    # offsets
    lp = loops[3]
    iv = ir.pat_binds(lp["pat"])
    w = wv(lp["body"])
    oko, why = False, ""
    if len(iv) == 1 and len(w) == 1:
        lets = {y["pat"]["hid"]: y["init"] for y in ir.walk_nodes(lp["body"]) if y.get("k") == "let" and "init" in y and y["pat"].get("k") == "bind"}
        v = ir.strip(w[0]["a"][0])
        if ir.local_hid(v) in lets:
            v = ir.unparen(lets[ir.local_hid(v)])
        if v.get("k") == "if" and "else" in v:
            conj = []

            def split(c):
                c = ir.unparen(c)
                if c.get("k") == "bin" and c.get("op") == "&&":
                    split(c["l"])
                    split(c["r"])
                else:
                    conj.append(c)
            split(v["c"])
            i_s = A.local_sym(iv[0])
            env = A.Env()
            gt0 = [c for c in conj if ir.cmp_norm(c) is not None and ir.cmp_norm(c)[0] == iv[0]["name"] and ir.cmp_norm(c)[1:] in ((">", "0"), (">=", "1"), ("!=", "0"))]
            eqs = [c for c in conj if c.get("k") == "bin" and c.get("op") == "=="]
            then_v, else_v = A.ev(v["then"], env), A.ev(v["else"], env)
            cont = False
            # the slice that is indexed: receiver of the first index expression in the condition
            ix = [y for y in ir.walk_nodes(v["c"]) if y.get("k") == "index"]
            base = A.ev_place(ix[0]["e"], env) if ix else None

            def fld(idx_term, name):
                return A.sym((((base, "[%s]" % (A.freeze(idx_term),)), ".range"), "." + name))
            cur_off = fld(i_s, "offset")
            prev_end = A.add(fld(A.sub(i_s, A.const(1)), "offset"), fld(A.sub(i_s, A.const(1)), "length"))
            if len(eqs) == 1 and base is not None:
                l, r = A.ev(eqs[0]["l"], env), A.ev(eqs[0]["r"], env)
                cont = (A.eq(l, cur_off) and A.eq(r, prev_end)) or (A.eq(r, cur_off) and A.eq(l, prev_end))
            plus1 = base is not None and A.eq(else_v, A.add(cur_off, A.const(1)))
            oko = len(conj) == 2 and len(gt0) == 1 and cont and A.as_const(then_v) == 0 and plus1
            why = "condition %s, then %s, else %s" % ([ir.place_str(c) or c.get("op") for c in conj], A.show(then_v), A.show(else_v))
    ck.check(oko, rule, "writer|offsets", "offsets are written as offset + 1, and as 0 exactly when i > 0 and the entry starts at previous offset + previous length",
             "the offset column is not encoded as published (%s)" % why, ir.loc(lp))
    # reader: ids accumulate
    r = fb[0]
    rl = [n for n in ir.walk_nodes(ir.fn_block(r)) if n.get("k") == "for"]
    okr = False
    if rl:
        lp = rl[0]
        rd = [y for y in ir.walk_nodes(lp["body"]) if y.get("k") == "mcall" and y.get("name") == "read_varint"]
        asg = [y for y in ir.walk_nodes(lp["body"]) if y.get("k") == "assign" and y["l"].get("k") == "path"]
        push = [y for y in ir.walk_nodes(lp["body"]) if y.get("k") == "call" and (y.get("q") or "").endswith("EntryV3::new")]
        if len(rd) == 1 and len(asg) == 1 and len(push) == 1:
            sv = ir.local_hid(asg[0]["l"])
            env = A.Env()
            A.run(ir.stmts_of(lp["body"]), env)
            prev = A.sym((sv, ir.strip(asg[0]["l"])["name"]))
            new = env.m.get(sv)
            init = [y for y in ir.walk_nodes(ir.fn_block(r)) if y.get("k") == "let" and y["pat"].get("k") == "bind" and y["pat"]["hid"] == sv]
            okr = new is not A.TOP and new is not None and len(new) == 2 and prev and all(c == 1 for c in new.values()) and list(prev.keys())[0] in new and \
                ir.local_hid(push[0]["a"][0]) == sv and bool(init) and ir.const_eval(init[0].get("init"), {}) == 0
    # index loops run over all entries: start 0
    def starts(b_):
        out = []
        for n in ir.walk_nodes(ir.fn_block(b_)):
            if n.get("k") == "for":
                it = ir.unparen(n["iter"])
                if it.get("k") == "struct" and "Range" in (it.get("q") or ""):
                    fl = {f["name"]: f["e"] for f in it["fields"]}
                    out.append(ir.const_eval(fl.get("start"), {}) if "start" in fl else None)
        return out
    st_w, st_r = starts(b), starts(r)
    ck.check(all(v == 0 for v in st_w + st_r) and len(st_w) >= 1 and len(st_r) >= 2, rule, "index-loops", "the index loops of writer and reader start at entry 0 (%d + %d loops)" % (len(st_w), len(st_r)),
             "an index loop over the directory entries starts at %s: the first entry is skipped" % (st_w + st_r), ir.loc(b))
    # reader: a stored non-zero offset v means v - 1
    subs = []
    for y0 in [y for y in ir.walk_nodes(r["body"]) if y.get("k") == "assign" and ir.strip(y["l"]).get("k") == "field" and ir.strip(y["l"]).get("name") == "offset"]:
        inside_index = {id(z) for ix_ in ir.walk_nodes(y0["r"]) if ix_.get("k") == "index" for z in ir.walk_nodes(ix_["i"])}
        for y in ir.walk_nodes(y0["r"]):
            if id(y) in inside_index:
                continue
            if y.get("k") == "mcall" and y.get("name") in ("checked_sub", "sub", "saturating_sub", "wrapping_sub") and len(y.get("a", ())) == 1:
                subs.append(ir.const_eval(y["a"][0], {}))
            if y.get("k") == "bin" and y.get("op") == "-":
                subs.append(ir.const_eval(y["r"], {}))
    asg_off = [y for y in ir.walk_nodes(r["body"]) if y.get("k") == "assign" and ir.strip(y["l"]).get("k") == "field" and ir.strip(y["l"]).get("name") == "offset"]
    ck.check(subs == [1] and len(asg_off) == 2, rule, "reader|offset-minus-one", "a stored offset v > 0 is decoded as v - 1 and both branches assign the entry's offset",
             "stored offsets are not decoded as v - 1 (subtrahends %s, %d assignments to .offset)" % (subs, len(asg_off)), ir.loc(r))
    from . import mvt as _mvt
    _mvt.varint_rules(ck, P, rule)
    ck.check(okr, rule, "reader|id-sum", "tile ids are the running sum of the stored deltas, starting at 0", "the reader does not rebuild tile ids as the running sum of the deltas", ir.loc(r))


def _env_of(b):
    from . import affine as A
    env = A.Env()
    A.run(ir.stmts_of(ir.fn_block(b)), env)
    return env



def error_guard_polarity(bodies):
    """(number of error exits, [exits taken when a value EQUALS a constant]) over the given bodies: the innermost `if` that decides an
    `return Err(..)` / bail! must not be an equality with a literal or constant (that is the negation of a validation guard)"""
    from . import census
    n_err, bad = 0, []
    for b in bodies:
        def is_err_exit(y):
            return y.get("k") == "ret" and y.get("e") is not None and ir.contains(y["e"], lambda z: z.get("k") == "call" and (z.get("q") or "").endswith(("Err::{Ctor#0}", "anyhow::Error::msg")))
        for n, parents, _m in ir.walk(ir.fn_block(b)):
            if not is_err_exit(n):
                continue
            n_err += 1
            guard = None
            for p_ in reversed(parents):
                if p_.get("k") == "if":
                    in_then = ir.contains(p_["then"], lambda z: z is n)
                    guard = ir.cmp_norm(p_["c"], negate=not in_then)
                    break
            if guard is not None and guard[1] == "==":
                other = [guard[0], guard[2]]
                if any(census._const_of(o) is not None or (isinstance(o, str) and (o.startswith(("'", '"', "b'")) or o.isupper())) for o in other):
                    bad.append("%s: error when `%s`" % (ir.loc(n), " ".join(map(str, guard))))
    return n_err, bad


def vt_types_rules(ck, P, rule="R-VT-TYPES"):
    """versatiles record helpers that every reader / writer path goes through:
       order    FileHeader::to_blob writes zoom_range[0], [1] and bbox[0..3] in index order; from_blob fills them in the same order;
       guards   a decoder reports an error when a length / magic / version DIFFERS from the expected constant — an error exit under
                `value == constant` (the negated guard) rejects exactly the valid files;
       records  BlockIndex::from_blob and TileIndex::from_blob visit every record from 0; BlockIndex adds each decoded block;
       index    TileIndex::set stores its argument at the given position, add_offset shifts every entry by its argument;
       level    the block-local box of a BlockDefinition lives on level min(z, 8) (a block is 256 = 2^8 tiles wide)."""
    from . import census
    fh_w = [b for b in P.bodies if b["q"].endswith("file_header::FileHeader::to_blob")]
    fh_r = [b for b in P.bodies if b["q"].endswith("file_header::FileHeader::from_blob")]
    if ck.anchor(rule, "FileHeader::to_blob/from_blob", fh_w + fh_r, 2):
        b = fh_w[0]
        seq = {}
        for y in ir.walk_nodes(b["body"]):
            if y.get("k") == "index" and ir.place_str(y["e"]).startswith("self.") and ir.const_eval(y["i"], {}) is not None:
                seq.setdefault(ir.place_str(y["e"]), []).append(ir.const_eval(y["i"], {}))
        oko = seq.get("self.zoom_range") == [0, 1] and seq.get("self.bbox") == [0, 1, 2, 3]
        ck.check(oko, rule, b["q"] + "|order", "zoom_range[0], [1] and bbox[0..3] are written in index order", "array elements are written in the order %s" % seq, ir.loc(b))
        r = fh_r[0]
        arrs = [y for y in ir.walk_nodes(r["body"]) if y.get("k") == "array" and len(y.get("es", ())) in (2, 4) and all(ir.contains(e_, lambda z: z.get("k") == "mcall" and z.get("name", "").startswith("read_")) for e_ in y["es"])]
        ck.check(len(arrs) == 2 and sorted(len(a["es"]) for a in arrs) == [2, 4], rule, r["q"] + "|order", "zoom range and bbox are read as array literals of consecutive reads (element order = read order)",
                 "the reader does not fill zoom range / bbox from consecutive reads (%d array literal(s))" % len(arrs), ir.loc(r))
    # decode guards
    DEC = ("file_header::FileHeader::from_blob", "block_index::BlockIndex::from_blob", "tile_index::TileIndex::from_blob", "block_definition::BlockDefinition::from_blob",
           "header_v3::HeaderV3::deserialize", "entries_v3::EntriesV3::from_blob")
    decs = [b for b in P.bodies if b["q"].endswith(DEC)]
    if ck.anchor(rule, "record decoders", decs, 6):
        bad, n_err = [], 0
        for b in decs:
            def is_err_exit(y):
                if y.get("k") == "ret" and y.get("e") is not None and ir.contains(y["e"], lambda z: z.get("k") == "call" and (z.get("q") or "").endswith(("Err::{Ctor#0}", "anyhow::Error::msg"))):
                    return True
                return False
            for n, parents, _m in ir.walk(ir.fn_block(b)):
                if not is_err_exit(n):
                    continue
                n_err += 1
                # the innermost condition that decides this exit
                guard = None
                for p_ in reversed(parents):
                    if p_.get("k") == "if":
                        in_then = ir.contains(p_["then"], lambda z: z is n)
                        guard = ir.cmp_norm(p_["c"], negate=not in_then)
                        break
                if guard is not None and guard[1] == "==":
                    other = [guard[0], guard[2]]
                    if any(census._const_of(o) is not None or (isinstance(o, str) and (o.startswith(("'", '"')) or o.isupper())) for o in other):
                        bad.append("%s: error when `%s`" % (ir.loc(n), " ".join(map(str, guard))))
        ck.check(not bad and n_err >= 6, rule, "decoders|guards", "no decoder reports an error because a length / magic / version EQUALS its expected value (%d error exits)" % n_err,
                 "a decoder rejects input that matches the expected value: %s" % bad[:3])
    # records
    for suffix, sink in (("block_index::BlockIndex::from_blob", "add_block"), ("tile_index::TileIndex::from_blob", "push")):
        bs = [b for b in P.bodies if b["q"].endswith(suffix)]
        if not bs:
            continue
        b = bs[0]
        loops = [n for n in ir.walk_nodes(b["body"]) if n.get("k") == "for"]
        okl = False
        if len(loops) == 1:
            it = ir.unparen(loops[0]["iter"])
            st = None
            if it.get("k") == "struct" and "Range" in (it.get("q") or ""):
                fl = {f["name"]: f["e"] for f in it["fields"]}
                st = ir.const_eval(fl.get("start"), {}) if "start" in fl else None
            from . import mvt
            cnt = mvt.exit_counts(P, {"body": loops[0]["body"]}, lambda y: 1 if (y.get("k") == "mcall" and y.get("name") == sink) else None)
            esc = [y["k"] for y in ir.walk_nodes(loops[0]["body"]) if y.get("k") in ("break", "continue")]
            okl = st == 0 and cnt == {1} and not esc
        ck.check(okl, rule, b["q"] + "|records", "every record from 0 on is decoded and kept (%s once per record)" % sink, "not every record is decoded and kept", ir.loc(b))
    bd = [b for b in P.bodies if b["q"].endswith("block_definition::BlockDefinition::from_blob")]
    if bd:
        brs = [y for y in ir.walk_nodes(bd[0]["body"]) if y.get("k") == "call" and (y.get("q") or "").endswith("ByteRange::new") and len(y.get("a", ())) == 2]
        badr = []
        for y in brs:
            n0, n1 = ir.place_str(y["a"][0]), ir.place_str(y["a"][1])
            if not ("offset" in _tokens(n0) and "length" in _tokens(n1)):
                badr.append("ByteRange::new(%s, %s)" % (n0, n1))
        ck.check(len(brs) == 2 and not badr, rule, bd[0]["q"] + "|ranges", "the two ranges of a block record are built as (offset value, length value)", "a range of the block record is built from %s" % badr, ir.loc(bd[0]))
    bi = [b for b in P.bodies if b["q"].endswith("block_index::BlockIndex::from_blob")]
    if bi:
        from . import affine as A
        brs = [y for y in ir.walk_nodes(bi[0]["body"]) if y.get("k") == "call" and (y.get("q") or "").endswith("ByteRange::new") and len(y.get("a", ())) == 2]
        okb = False
        shown = "?"
        loops = [n for n in ir.walk_nodes(bi[0]["body"]) if n.get("k") == "for"]
        if len(brs) == 1 and len(loops) == 1:
            iv = ir.pat_binds(loops[0]["pat"])
            env = A.Env()
            off, ln = A.ev(brs[0]["a"][0], env), A.ev(brs[0]["a"][1], env)
            shown = "(%s, %s)" % (A.show(off), A.show(ln))
            okb = len(iv) == 1 and A.as_const(ln) is not None and A.eq(off, A.mul(A.local_sym(iv[0]), ln))
        ck.check(okb, rule, bi[0]["q"] + "|record-range", "record i of the block index is read from (i * record length, record length)", "block index records are read from %s" % shown, ir.loc(bi[0]))
    ts = [b for b in P.bodies if b["q"].endswith("tile_index::TileIndex::set")]
    ta = [b for b in P.bodies if b["q"].endswith("tile_index::TileIndex::add_offset")]
    if ck.anchor(rule, "TileIndex::set/add_offset", ts + ta, 2):
        b = ts[0]
        ps = [x for p_ in b["params"] for x in ir.pat_binds(p_) if x["name"] != "self"]
        asg = [y for y in ir.walk_nodes(b["body"]) if y.get("k") == "assign" and ir.strip(y["l"]).get("k") == "index"]
        oks = len(ps) == 2 and len(asg) == 1 and ir.local_hid(ir.strip(asg[0]["l"])["i"]) == ps[0]["hid"] and ir.local_hid(asg[0]["r"]) == ps[1]["hid"] and ir.place_str(ir.strip(asg[0]["l"])["e"]).startswith("self.")
        ck.check(oks, rule, b["q"], "set(index, range) stores the range at that position", "TileIndex::set does not store its argument at the given position", ir.loc(b))
        b = ta[0]
        ps = [x for p_ in b["params"] for x in ir.pat_binds(p_) if x["name"] != "self"]
        it = [y for y in ir.walk_nodes(b["body"]) if y.get("k") == "mcall" and y.get("name") == "iter_mut" and ir.place_str(y["recv"]).startswith("self.")]
        adds = [y for y in ir.walk_nodes(b["body"]) if (y.get("k") == "mcall" and y.get("name") in ("saturating_add", "checked_add", "wrapping_add") or y.get("k") == "assignop" and y.get("op", "").startswith("+"))
                and ir.contains(y, lambda z: z.get("k") == "path" and z.get("r") == "local" and ps and z.get("hid") == ps[0]["hid"]) and ir.contains(y, lambda z: z.get("k") == "field" and z.get("name") == "offset")]
        adapt = [y["name"] for y in ir.walk_nodes(b["body"]) if y.get("k") == "mcall" and y.get("name") in ("skip", "take", "filter", "step_by", "skip_while", "take_while")]
        ck.check(len(it) == 1 and len(adds) >= 1 and not adapt, rule, b["q"], "add_offset adds its argument to the offset of every entry", "add_offset does not shift every entry by its argument", ir.loc(b))
    for suffix in ("block_definition::BlockDefinition::new", "block_definition::BlockDefinition::from_blob"):
        bs = [b for b in P.bodies if b["q"].endswith(suffix)]
        if not bs:
            continue
        nb = [y for y in ir.walk_nodes(bs[0]["body"]) if y.get("k") == "call" and (y.get("q") or "").endswith("TileBBox::new") and len(y.get("a", ())) == 5]
        okz = False
        if nb:
            a0 = ir.strip(nb[0]["a"][0])
            okz = a0.get("k") == "mcall" and a0.get("name") == "min" and ir.const_eval(a0["a"][0], {}) == 8
        ck.check(okz, rule, bs[0]["q"] + "|level", "the block-local box is built on level min(z, 8)", "the block-local box is not built on level min(z, 8): local coordinates up to 255 are rejected or unbounded", ir.loc(bs[0]))



def byte_range_shift_rules(ck, P, rule="R-BASE"):
    """ByteRange's shifting helpers (used by the writers to make offsets relative): get_shifted_backward = (offset - n, length),
    get_shifted_forward = (offset + n, length), shift_backward / shift_forward change self.offset by n and nothing else"""
    from . import affine as A
    from . import boxalg
    fns = {nm: [b for b in P.bodies if b["q"].endswith("byte_range::ByteRange::" + nm)] for nm in ("get_shifted_backward", "get_shifted_forward", "shift_backward", "shift_forward")}
    if not ck.anchor(rule, "ByteRange shift helpers", [v[0] for v in fns.values() if v], 4):
        return
    for nm, sign in (("get_shifted_backward", -1), ("get_shifted_forward", 1)):
        b = fns[nm][0]
        st = [y for y in ir.walk_nodes(b["body"]) if y.get("k") == "struct"]
        ps = [x for p_ in b["params"] for x in ir.pat_binds(p_) if x["name"] != "self"]
        ok = False
        if len(st) == 1 and ps:
            fv = {f["name"]: A.ev(f["e"], A.Env()) for f in st[0]["fields"]}
            sp = next(y for y in ir.walk_nodes(b["body"]) if y.get("k") == "path" and y.get("name") == "self")
            so, sl = A.sym(((sp["hid"], "self"), ".offset")), A.sym(((sp["hid"], "self"), ".length"))
            ok = A.eq(fv.get("offset"), A.add(so, A.local_sym(ps[0]), sign)) and A.eq(fv.get("length"), sl)
        ck.check(ok, rule, b["q"], "%s = (offset %s n, length)" % (nm, "+" if sign > 0 else "-"), "%s does not return (offset %s n, length)" % (nm, "+" if sign > 0 else "-"), ir.loc(b))
    for nm, sign in (("shift_backward", -1), ("shift_forward", 1)):
        b = fns[nm][0]
        r = boxalg.paths(P, b, ["offset", "length"])
        ps = [x for p_ in b["params"] for x in ir.pat_binds(p_) if x["name"] != "self"]
        ok = False
        if r and r["paths"] and ps:
            sp = r["self"]
            ok = all(A.eq(st.store.get((sp, ".offset")), A.add(A.sym((sp, ".offset")), A.local_sym(ps[0]), sign)) and (sp, ".length") not in st.store for st in r["paths"])
        ck.check(ok, rule, b["q"], "%s changes self.offset by %sn and nothing else" % (nm, "+" if sign > 0 else "-"), "%s does not change self.offset by %sn only" % (nm, "+" if sign > 0 else "-"), ir.loc(b))
