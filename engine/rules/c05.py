"""C05 — HTTP tile endpoint serves exactly the stored tile under content negotiation.

E-COMP-OPT       optimize_compression is evaluated abstractly for every (stored encoding, allowed set, goal): the returned
                 payload's encoding equals the returned tag, the tag is in the allowed set, errors only when the set lacks identity.
R-CE-TABLE       ok_data maps the tag to Content-Encoding (gzip/br/absent), get_encoding maps header tokens to the allowed set
                 with the inverse table and always allows identity; ok_data feeds optimize_compression the source's declared
                 compression and blob; Content-Type is the response's mime, which the tile source takes from the format.
R-STATUS         Ok(Some) -> 200 via ok_data, Err -> 400, otherwise 404; parse failures are Err, reader errors and misses are None.
R-HANDLER-TOTAL  census over the axum handlers and everything they reach: no panic-capable site may depend on request data.
"""
import itertools

from . import absint, census, comp, ir
from .absint import OPAQUE, is_variant
from .report import m_drop_stmt, m_replace

from .wire import _eval_order as wire_eval_order

META = {
    "level": "other",
    "explanation": (
        "Decides the negotiation and totality part of C05: optimize_compression's IR is evaluated over abstract payloads for all "
        "3 stored encodings x 8 allowed sets x 3 goals (72 valuations) — the body handed to the client is encoded as the tag "
        "says, and the tag is an allowed encoding; the tag->Content-Encoding table of ok_data and the token->set table of "
        "get_encoding are extracted and must be mutually inverse and equal to the IANA names; ok_data passes the source's "
        "declared compression and blob; the status mapping of serve_tile/TileSource::get_data is checked structurally; "
        "and a census over both handlers and all reachable code (including every get_tile_data implementation) shows that "
        "no panic-capable site depends on the request path or headers, so every request ends in a complete response."),
    "not_decided": "the HTTP stack (hyper/axum), substring semantics of Accept-Encoding matching (q-values, 'identity;q=0'), that the source's declared compression describes the stored bytes, codec correctness.",
    "trusted_base": ["flate2/brotli codecs", "axum delivers handler panics as dropped connections (hence the census)", "reviewed tables (tables/handler_sites.json, panic_sites.json, stream_sites.json)"],
}

UTIL = "versatiles_core::utils::compression::"
GOALS = ("UseFastCompression", "UseBestCompression", "IsIncompressible")
CE_SPEC = {"G": "gzip", "B": "br"}


def handlers(P):
    return sorted(b["q"] for b in P.bodies if b["crate"] == "versatiles" and any("::Uri" in t for t in b.get("in_t", ())) and "Response<" in b.get("out_t", ""))


def server_wiring_rule(ck, P):
    """R-WIRING: every tile source added to the server is served: add_tile_source keeps the source it built (push on every successful
    path), start() mounts the tile routes (and the static routes) on every path before it serves, add_tile_sources_to_app registers a
    route for every source in the list and merges it into the application."""
    from . import mvt
    ats = [b for b in P.bodies if b["q"].endswith("tile_server::TileServer::add_tile_source")]
    st = [b for b in P.bodies if b["q"].endswith("tile_server::TileServer::start")]
    app = [b for b in P.bodies if b["q"].endswith("tile_server::TileServer::add_tile_sources_to_app")]
    if not ck.anchor("R-WIRING", "TileServer::add_tile_source/start/add_tile_sources_to_app", ats + st + app, 3):
        return
    b = ats[0]
    made = [y for y in ir.walk_nodes(b["body"]) if y.get("k") == "let" and "init" in y and ir.contains(y["init"], lambda z: z.get("k") == "call" and (z.get("q") or "").endswith("TileSource::from"))]
    sh = made[0]["pat"]["hid"] if made and made[0]["pat"].get("k") == "bind" else None
    cnt = mvt.exit_counts(P, b, lambda y: 1 if (y.get("k") == "mcall" and y.get("name") == "push" and ir.place_str(y["recv"]) == "self.tile_sources" and y.get("a") and ir.local_hid(y["a"][0]) == sh) else None)
    ck.check(sh is not None and cnt == {1}, "R-WIRING", b["q"], "the TileSource built from the reader is pushed to self.tile_sources exactly once on every successful path",
             "add_tile_source does not keep the source it built on every successful path (pushes per call: %s)" % sorted(cnt), ir.loc(b))
    # routes of two sources never shadow each other: /tiles/a/{*path} and /tiles/a/3/{*path} overlap, axum prefers the longer one, and
    # /tiles/a/3/x/y then reaches the source `a/3` with two path parts (404) although `a` holds the tile.  So a source is refused when
    # its prefix is a prefix of an existing one OR the other way round (equality is the special case of both).
    b = ats[0]
    lets = comp.lets_of(b)
    sw = []
    for y, ps, _ in ir.walk(b["body"]):
        if y.get("k") == "mcall" and y.get("name") == "starts_with" and y.get("a"):
            g = [p_ for p_ in ps if p_.get("k") == "if" and ir.contains(p_["c"], lambda z: z is y)]
            if g and ir.diverges(g[-1]["then"]) and not any(p_.get("k") == "un" and p_.get("op") == "!" and ir.contains(p_, lambda z: z is y) for p_ in ps):
                sw.append((comp.deep_place(y["recv"], lets), comp.deep_place(y["a"][0], lets), g[-1]))
    new_side = lambda s_: sh is not None and made[0]["pat"].get("name") is not None and s_.split(".")[0] == made[0]["pat"]["name"] and s_.endswith(".prefix")
    both = [(a, c) for a, c, g in sw for a2, c2, g2 in sw if a == c2 and c == a2 and a != c and g is g2 and new_side(a) and c.endswith(".prefix")]
    order = {id(y): i for i, y in enumerate(ir.walk_nodes(b["body"]))}
    pushes = [y for y in ir.walk_nodes(b["body"]) if y.get("k") == "mcall" and y.get("name") == "push" and ir.place_str(y["recv"]) == "self.tile_sources"]
    before = bool(both) and bool(pushes) and all(order[id(g)] < order[id(pushes[0])] for _, _, g in sw)
    over_all = any(n.get("k") == "for" and ir.place_str(ir.strip(n["iter"])).startswith("self.tile_sources") and ir.contains(n["body"], lambda z: z.get("name") == "starts_with") for n in ir.walk_nodes(b["body"])) or \
        any(n.get("k") == "mcall" and n.get("name") == "any" and ir.place_str(ir.strip(n["recv"])).startswith("self.tile_sources") and ir.contains(n, lambda z: z.get("name") == "starts_with") for n in ir.walk_nodes(b["body"]))
    ck.check(bool(both) and before and over_all, "R-WIRING", b["q"] + "|routes-disjoint",
             "a source is refused when its url prefix starts with an existing source's prefix or the other way round (checked against every existing source, before the push)",
             "add_tile_source does not refuse a source whose url prefix contains, or is contained in, an existing source's prefix (starts_with guards found: %s): nested ids such as `a` and `a/3` "
             "give overlapping routes, and requests for zoom 3 of `a` are answered by `a/3` with 404" % [(a, c) for a, c, _ in sw], ir.loc(b))
    b = st[0]
    for nm in ("add_tile_sources_to_app", "add_static_sources_to_app"):
        c = mvt.exit_counts(P, {"body": ir.fn_block(b)}, lambda y, nm=nm: 1 if (y.get("k") == "mcall" and (ir.callee(y) or "").endswith("TileServer::" + nm)) else None)
        asg = [y for y in ir.walk_nodes(b["body"]) if y.get("k") == "assign" and ir.contains(y["r"], lambda z, nm=nm: z.get("k") == "mcall" and (ir.callee(z) or "").endswith("TileServer::" + nm))]
        serve = [y for y in ir.walk_nodes(b["body"]) if y.get("k") == "call" and (y.get("q") or "").startswith("axum::serve")]
        used = bool(asg) and bool(serve) and ir.contains(serve[0], lambda z: z.get("k") == "path" and z.get("r") == "local" and z.get("hid") == ir.local_hid(asg[0]["l"]))
        ck.check(c == {1} and used, "R-WIRING", b["q"] + "|" + nm, "start() mounts %s on the router it serves, on every path" % nm.replace("add_", "").replace("_to_app", ""),
                 "start() does not mount the routes of %s on the served router (calls per start: %s)" % (nm, sorted(c)), ir.loc(b))
    # the serve tool: every tile source argument is added (one add_tile_source per loop round over the arguments) and the server is started
    rn = [x for x in P.bodies if x["q"].endswith("tools::serve::run")]
    if ck.anchor("R-WIRING", "serve::run", rn, 1):
        rb = ir.fn_block(rn[0])
        # #[tokio::main] wraps the body in an async block handed to the runtime: analyse that block
        inner = [c for c in ir.walk_nodes(rb) if c.get("k") == "closure" and ir.contains(c["body"], lambda y: y.get("k") == "mcall" and (ir.callee(y) or "").endswith("TileServer::start"))]
        if inner:
            rb = inner[-1]["body"]
        c_start = mvt.exit_counts(P, {"body": rb}, lambda y: 1 if (y.get("k") == "mcall" and (ir.callee(y) or "").endswith("TileServer::start")) else None)
        lps = [n for n in ir.walk_nodes(rb) if n.get("k") == "for" and ir.contains(n["body"], lambda y: y.get("k") == "mcall" and (ir.callee(y) or "").endswith("TileServer::add_tile_source"))]
        okr = False
        if len(lps) == 1:
            over_args = "tile_sources" in ir.place_str(lps[0]["iter"]) or any(z.get("k") == "field" and z.get("name") == "tile_sources" for z in ir.walk_nodes(lps[0]["iter"]))
            adapt = [y["name"] for y in ir.walk_nodes(lps[0]["iter"]) if y.get("k") == "mcall" and y.get("name") in ("skip", "take", "filter", "step_by", "take_while", "skip_while", "rev")]
            c_add = mvt.exit_counts(P, {"body": lps[0]["body"]}, lambda y: 1 if (y.get("k") == "mcall" and (ir.callee(y) or "").endswith("TileServer::add_tile_source")) else None)
            esc = [y["k"] for y in ir.walk_nodes(lps[0]["body"]) if y.get("k") in ("break", "continue") and "m" not in y]
            okr = over_args and not adapt and c_add == {1} and not esc
        ck.check(okr and c_start == {1}, "R-WIRING", rn[0]["q"], "every tile source argument is added to the server once and the server is started once on every successful path",
                 "serve does not add every tile source argument and start the server (per-argument adds ok=%s, starts %s)" % (okr, sorted(c_start)), ir.loc(rn[0]))
    b = app[0]
    lp = [n for n in ir.walk_nodes(b["body"]) if n.get("k") == "for" and ir.place_str(n["iter"]).startswith("self.tile_sources")]
    okl = False
    if len(lp) == 1:
        adapt = [y["name"] for y in ir.walk_nodes(lp[0]["iter"]) if y.get("k") == "mcall" and y.get("name") not in ("iter", "into_iter", "clone", "iter_mut", "cloned", "to_vec")]
        esc = [y["k"] for y in ir.walk_nodes(lp[0]["body"]) if y.get("k") in ("break", "continue")]
        mg = mvt.exit_counts(P, {"body": lp[0]["body"]}, lambda y: 1 if (y.get("k") == "mcall" and y.get("name") in ("merge", "nest", "route", "route_service", "nest_service") and "Router" in ((ir.strip(y["recv"]).get("t") or ""))
                                                                      and ir.local_hid(y["recv"]) is not None) else None)
        okl = not adapt and not esc and bool(mg) and 0 not in mg
    ck.check(okl, "R-WIRING", b["q"], "a route is registered and merged for every tile source in the list", "not every tile source of the list gets its route", ir.loc(b))


def rules(ck, P):
    from . import c04 as _c04
    _c04.override_order_rule(ck, P)
    server_wiring_rule(ck, P)
    # the body of a response is the stored tile passed through the codec leaves whenever it has to be decoded or re-encoded: the leaf
    # obligations of C04 (whole payload, every path, input = the blob) are part of this check
    from .report import Check as _Check
    tmp = _Check("C04", silent=True)
    _c04.rules(tmp, P)
    leafs = [o for o in tmp.obligations if o["rule"] == "E-COMP-LEAF"]
    ck.obligations.extend(leafs)
    ck.anchor("E-COMP-LEAF", "codec leaf obligations (shared with C04)", leafs, 10)
    leaves = comp.leaf_summaries(P)
    # ---------------- E-COMP-OPT
    q = UTIL + "optimize_compression"
    if ck.anchor("E-COMP-OPT", "optimize_compression", [1] if P.fn(q) else [], 1):
        goal_q = "versatiles_core::utils::compression::CompressionGoal::"
        n_eval = 0
        for enc in ("U", "G", "B"):
            for r in range(0, 4):
                for subset in itertools.combinations(("U", "G", "B"), r):
                    for goal in GOALS:
                        it = comp.CompInterp(P, leaves)
                        tgt = ("struct", {"compressions": ("set", frozenset(comp.variant(e) for e in subset)), "compression_goal": absint.mk_variant(goal_q + goal)})
                        key = "%s|{%s}|%s" % (comp.NAMES[enc], ",".join(subset), goal)
                        n_eval += 1
                        try:
                            res = it.call_fn(q, [("blob", enc), comp.variant(enc), tgt])
                        except absint.Unsupported as ex:
                            ck.violation("E-COMP-OPT", key, "not evaluable: %s" % ex)
                            continue
                        if is_variant(res, "Result::Err"):
                            ck.check("U" not in subset, "E-COMP-OPT", key, "rejected: identity is not allowed", "fails although identity is allowed", ir.loc(P.fn(q)))
                            continue
                        if not (is_variant(res, "Result::Ok") and isinstance(res[2][0], tuple) and res[2][0][0] == "tuple"):
                            ck.violation("E-COMP-OPT", key, "unexpected result %s" % (res,))
                            continue
                        blob, tag = res[2][0][1]
                        tenc = comp.enc_of(tag)
                        good = isinstance(blob, tuple) and blob[0] == "blob" and blob[1] == tenc and tenc in subset and not it.errors
                        ck.check(good, "E-COMP-OPT", key, "stored %s -> body %s tagged %s, allowed" % (enc, blob[1] if isinstance(blob, tuple) else blob, tenc),
                                 "stored %s, allowed {%s}, goal %s: body is %s but tagged %s %s%s" % (
                                     enc, ",".join(subset), goal, blob[1] if isinstance(blob, tuple) and len(blob) > 1 else blob, tenc,
                                     "" if tenc in subset else "(an encoding the client did not list) ", it.errors), ir.loc(P.fn(q)))
        ck.note("E-COMP-OPT evaluated %d valuations" % n_eval)

    # ---------------- R-CE-TABLE
    okd = [b for b in P.bodies if b["q"].endswith("tile_server::ok_data")]
    gen = [b for b in P.bodies if b["q"].endswith("tile_server::get_encoding")]
    if ck.anchor("R-CE-TABLE", "ok_data + get_encoding", okd + gen, 2):
        b = okd[0]
        tab = {}
        for n in ir.walk_nodes(b["body"]):
            if n.get("k") == "match":
                for a in n["arms"]:
                    pq = a["pat"].get("q") or a["pat"].get("e", {}).get("q") or ""
                    e = comp.ENC_OF.get(absint.vname(pq))
                    if e is None:
                        continue
                    hdr = [x for x in ir.walk_nodes(a["body"]) if x.get("k") == "mcall" and x.get("name") == "header" and ir.place_str(x["a"][0]).endswith("CONTENT_ENCODING")]
                    tab[e] = ir.const_eval_str(hdr[0]["a"][1]) if hdr else None
        ck.check(tab == {"U": None, "G": "gzip", "B": "br"}, "R-CE-TABLE", b["q"] + "|tag->header", "Content-Encoding: Gzip->gzip, Brotli->br, Uncompressed->absent",
                 "Content-Encoding table is %s" % tab, ir.loc(b))
        # header is set from the tag returned by optimize_compression, called with the response's blob and declared compression
        oc = [n for n in ir.walk_nodes(b["body"]) if n.get("k") == "call" and n.get("q") == q]
        okc = False
        if len(oc) == 1:
            a0, a1, a2 = oc[0]["a"]
            ps_ = [x for p_ in b["params"] for x in ir.pat_binds(p_)]
            rp_ = [x for x in ps_ if x["t"].endswith("SourceResponse")]
            tp_ = [x for x in ps_ if x["t"].endswith("TargetCompression")]

            def fld_of(e, name):
                e = ir.strip(e)
                while e is not None and e.get("k") == "ref":
                    e = ir.strip(e["e"])
                return e is not None and e.get("k") == "field" and e.get("name") == name and rp_ and ir.local_hid(e["e"]) == rp_[0]["hid"]
            okc = fld_of(a0, "blob") and fld_of(a1, "compression") and bool(tp_) and ir.local_hid(a2) == tp_[0]["hid"]
        ck.check(okc, "R-CE-TABLE", b["q"] + "|inputs", "optimize_compression(result.blob, result.compression, target_compressions)",
                 "optimize_compression is not called with the response's own blob/compression and the negotiated target", ir.loc(b))
        # the body and the Content-Encoding tag are, on every path, the pair returned by that call
        okp = False
        whyp = "no `let (blob, compression) = optimize_compression(..)`"
        if len(oc) == 1:
            for n in ir.walk_nodes(b["body"]):
                if n.get("k") == "let" and "init" in n and ir.contains(n["init"], lambda y: y is oc[0]):
                    e = ir.strip(n["init"])
                    while e is not None and e is not oc[0] and (e.get("k") in ("try", "await") or (e.get("k") == "mcall" and e.get("name") in ("expect", "unwrap") )):
                        e = ir.strip(e["e"] if e.get("k") in ("try", "await") else e["recv"])
                    binds = ir.pat_binds(n["pat"])
                    direct = e is oc[0]
                    mt = [m for m in ir.walk_nodes(b["body"]) if m.get("k") == "match" and any(comp.ENC_OF.get(absint.vname(a["pat"].get("q") or a["pat"].get("e", {}).get("q") or "")) for a in m["arms"])]
                    bodyc = [x for x in ir.walk_nodes(b["body"]) if x.get("k") == "mcall" and x.get("name") == "body"]
                    tag_ok = len(binds) == 2 and len(mt) == 1 and ir.local_hid(mt[0]["e"]) == binds[1]["hid"]
                    body_ok = len(binds) == 2 and len(bodyc) == 1 and binds[0]["hid"] in {ir.local_hid(y) for y in ir.walk_nodes(bodyc[0]["a"][0])}
                    okp = direct and tag_ok and body_ok
                    whyp = "direct=%s tag-from-result=%s body-from-result=%s" % (direct, tag_ok, body_ok)
        ck.check(okp, "R-CE-TABLE", b["q"] + "|result-used", "on every path the response body and the Content-Encoding tag are the pair returned by optimize_compression",
                 "some path builds the response without optimize_compression's result (%s): the stored encoding can be sent to a client that did not list it" % whyp, ir.loc(b))
        ct = [x for x in ir.walk_nodes(b["body"]) if x.get("k") == "mcall" and x.get("name") == "header" and ir.place_str(x["a"][0]).endswith("CONTENT_TYPE")]
        ck.check(len(ct) == 1 and len(oc) == 1 and fld_of(ct[0]["a"][1], "mime"), "R-CE-TABLE", b["q"] + "|content-type", "Content-Type is the response's mime", "Content-Type is not result.mime", ir.loc(b))
        st = [ir.const_eval(x["a"][0], {}) for x in ir.walk_nodes(b["body"]) if x.get("k") == "mcall" and x.get("name") == "status"]
        ck.check(st == [200], "R-STATUS", b["q"] + "|200", "ok_data answers 200", "ok_data status is %s" % st, ir.loc(b))
        # get_encoding
        g = gen[0]
        gt = {}
        for n in ir.walk_nodes(g["body"]):
            if n.get("k") == "if":
                c = ir.unparen(n["c"])
                if c.get("k") == "mcall" and c.get("name") == "contains" and c.get("a"):
                    tok = ir.const_eval_str(c["a"][0])
                    ins = [x for x in ir.walk_nodes(n["then"]) if x.get("k") == "mcall" and x.get("name") == "insert"]
                    if tok and ins:
                        gt[tok] = comp.ENC_OF.get(absint.vname(ir.strip(ins[0]["a"][0]).get("q")))
        ck.check(gt == {"gzip": "G", "br": "B"}, "R-CE-TABLE", g["q"] + "|token->set", "Accept-Encoding tokens: gzip->Gzip, br->Brotli", "token table is %s" % gt, ir.loc(g))
        base = [x for x in ir.walk_nodes(g["body"]) if x.get("k") == "call" and (x.get("q") or "").endswith("TargetCompression::from_none")]
        ck.check(len(base) == 1, "R-CE-TABLE", g["q"] + "|identity", "identity is always allowed (set starts from from_none())", "the allowed set does not start from identity", ir.loc(g))
        inv = {v: k for k, v in gt.items()}
        ck.check(all(tab.get(e) == inv.get(e) for e in ("G", "B")) and tab.get("G") == CE_SPEC["G"] and tab.get("B") == CE_SPEC["B"], "R-CE-TABLE", "inverse",
                 "request and response tables are inverse and use the IANA content-coding names", "request/response tables disagree: %s vs %s" % (gt, tab))
    # the allowed set derived from the request is never widened on its way to optimize_compression: outside get_encoding, a
    # TargetCompression value is only changed through methods that touch nothing but the compression goal
    widen = []
    n_mut = 0
    scope = [b for b in P.bodies if b["q"].startswith("versatiles::tools::server::") and not b["q"].endswith("tile_server::get_encoding")]
    for b in scope:
        for n in ir.walk_nodes(b["body"]):
            if n.get("k") == "mcall":
                r = ir.strip(n["recv"])
                rt = (r.get("t") or "") + (r.get("ta") or "")
                if "TargetCompression" not in rt and "EnumSet<" not in rt:
                    continue
                if "EnumSet<" in rt and "TargetCompression" not in rt:
                    # direct access to the `compressions` field of a TargetCompression
                    if not (r.get("k") == "field" and "TargetCompression" in ((ir.strip(r["e"]).get("t") or "") + (ir.strip(r["e"]).get("ta") or ""))):
                        continue
                    if n.get("name") in ("insert", "insert_all", "extend", "toggle", "set") or n.get("name", "").startswith("insert"):
                        widen.append("%s: .compressions.%s(..)" % (ir.loc(n), n["name"]))
                    continue
                cal = P.fn(ir.callee(n) or "")
                if cal is None or not (cal.get("in_t") or [""])[0].startswith("&mut"):
                    continue
                n_mut += 1
                writes = [ir.strip(y["l"]).get("name") for y in ir.walk_nodes(cal["body"]) if y.get("k") in ("assign", "assignop") and ir.strip(y["l"]).get("k") == "field"]
                other = [y["name"] for y in ir.walk_nodes(cal["body"]) if y.get("k") == "mcall" and ir.place_str(y["recv"]).startswith("self.") and
                         y["name"] in ("insert", "insert_all", "extend", "toggle", "remove", "clear")]
                if any(w != "compression_goal" for w in writes) or other:
                    widen.append("%s: %s(..) changes %s" % (ir.loc(n), n["name"], sorted(set([w for w in writes if w != "compression_goal"] + other))))
            if n.get("k") in ("assign", "assignop") and ir.strip(n["l"]).get("k") == "field" and ir.strip(n["l"]).get("name") == "compressions" and \
                    "TargetCompression" in ((ir.strip(ir.strip(n["l"])["e"]).get("t") or "") + (ir.strip(ir.strip(n["l"])["e"]).get("ta") or "")):
                widen.append("%s: .compressions assigned" % ir.loc(n))
    ck.anchor("R-CE-TABLE", "goal-only mutations of the allowed set in the server", n_mut, 3)
    # every ok_data call in a handler receives the value derived from this request's headers
    n_okd = 0
    bad_okd = []
    for b in scope:
        lets = comp.lets_of(b)
        for n in ir.walk_nodes(b["body"]):
            if n.get("k") == "call" and (n.get("q") or "").endswith("tile_server::ok_data") and len(n.get("a", ())) == 2:
                n_okd += 1
                a1 = ir.strip(n["a"][1])
                if a1.get("k") == "call" and (a1.get("q") or "").endswith("TargetCompression::from_none"):
                    continue          # identity only: acceptable to every client
                h = ir.local_hid(n["a"][1])
                init = lets.get(h) if h is not None else None
                if init is None or not ir.contains(init, lambda y: y.get("k") == "call" and (y.get("q") or "").endswith("tile_server::get_encoding")):
                    bad_okd.append(ir.loc(n))
    ck.anchor("R-CE-TABLE", "ok_data call sites", n_okd, 2)
    ck.check(not bad_okd, "R-CE-TABLE", "allowed-set|from-request", "every ok_data call receives the set that get_encoding derived from the request's headers (%d call site(s))" % n_okd,
             "ok_data is called with an allowed set that does not come from get_encoding(headers) at %s" % bad_okd)
    ck.check(not widen, "R-CE-TABLE", "allowed-set|not-widened", "after get_encoding the allowed encodings are never extended: the server changes only the compression goal (%d mutation site(s))" % n_mut,
             "the set of encodings the client listed is changed after it was derived from Accept-Encoding (%s): the response can carry a Content-Encoding the client did not list" % widen[:3])
    # tile source: compression and mime come from the reader's parameters
    ts = [b for b in P.bodies if b["q"].endswith("tile_source::TileSource::from")]
    if ck.anchor("R-CE-TABLE", "TileSource::from", ts, 1):
        b = ts[0]
        lets = comp.lets_of(b)
        st = [n for n in ir.walk_nodes(b["body"]) if n.get("k") == "struct" and n.get("q", "").endswith("::TileSource")]
        okm = False
        if st:
            f = {x["name"]: comp.deep_place(x["e"], lets) for x in st[0]["fields"]}
            okm = "tile_compression" in f.get("compression", "") and "as_mime_str" in f.get("tile_mime", "") and "tile_format" in f.get("tile_mime", "")
            desc = {k: f.get(k) for k in ("compression", "tile_mime")}
        ck.check(okm, "R-CE-TABLE", b["q"], "source response carries the reader's declared compression and the format's mime type (%s)" % (desc if st else ""),
                 "TileSource does not take compression/mime from the reader parameters", ir.loc(b))

    gd = [b for b in P.bodies if b["q"].endswith("tile_source::TileSource::get_data")]
    ns = [b for b in P.bodies if b["q"].endswith("response::SourceResponse::new_some")]
    if ck.anchor("R-CE-TABLE", "TileSource::get_data + SourceResponse::new_some", gd + ns, 2):
        b = gd[0]
        look = [n for n in ir.walk_nodes(b["body"]) if n.get("k") == "mcall" and (n.get("q") or "").endswith("TilesReaderTrait::get_tile_data")]
        calls = [n for n in ir.walk_nodes(b["body"]) if n.get("k") == "call" and (n.get("q") or "").endswith("SourceResponse::new_some")]
        tile_calls = []
        for c in calls:
            # the response that carries the looked-up tile: its blob argument is bound from the lookup result
            a0 = ir.strip(c["a"][0])
            if a0.get("k") == "path" and a0.get("r") == "local" and a0.get("t", "").endswith("Blob") and not ir.contains(b["body"], lambda y: y.get("k") == "let" and y["pat"].get("hid") == a0["hid"] and
                                                                                                                           ir.contains(y.get("init", {}), lambda z: (z.get("q") or "").endswith("build_tile_json"))):
                tile_calls.append(c)
        okt = len(tile_calls) == 1 and ir.place_str(tile_calls[0]["a"][1]) == "self.compression" and ir.place_str(tile_calls[0]["a"][2]) == "self.tile_mime" and len(look) == 1
        ck.check(okt, "R-CE-TABLE", b["q"] + "|tile-response", "the stored tile is handed on with the source's declared compression and mime (self.compression, self.tile_mime)",
                 "the tile response is labelled with %s, not with the source's declared compression/mime" % [(ir.place_str(c["a"][1]), ir.place_str(c["a"][2])) for c in tile_calls], ir.loc(b))
        nb = ns[0]
        st = [n for n in ir.walk_nodes(nb["body"]) if n.get("k") == "struct" and (n.get("q") or "").endswith("::SourceResponse")]
        okn = False
        if st:
            ps = {x["name"]: x["hid"] for p in nb["params"] for x in ir.pat_binds(p)}

            def root(e):
                hs_ = {ir.local_hid(y) for y in ir.walk_nodes(e) if y.get("k") == "path" and y.get("r") == "local"}
                return hs_
            f = {x["name"]: root(x["e"]) for x in st[0]["fields"]}
            pl_ = [x for p_ in nb["params"] for x in ir.pat_binds(p_)]
            by_t = {"blob": [x["hid"] for x in pl_ if x["t"].endswith("Blob")], "compression": [x["hid"] for x in pl_ if "TileCompression" in x["t"]], "mime": [x["hid"] for x in pl_ if x["t"] in ("&str", "std::string::String", "&std::string::String")]}
            okn = all(len(v) == 1 for v in by_t.values()) and f.get("blob") == set(by_t["blob"]) and f.get("compression") == set(by_t["compression"]) and f.get("mime") == set(by_t["mime"])
        ck.check(okn, "R-CE-TABLE", nb["q"], "SourceResponse::new_some stores blob, compression and mime from its own parameters", "SourceResponse::new_some crosses or drops a parameter", ir.loc(nb))

    # ---------------- R-STATUS
    hs = handlers(P)
    ck.anchor("R-STATUS", "axum handlers", hs, 2)
    for code, fn in ((400, "error_400"), (404, "error_404")):
        bs = [b for b in P.bodies if b["q"].endswith("tile_server::" + fn)]
        if bs:
            st = [ir.const_eval(x["a"][0], {}) for x in ir.walk_nodes(bs[0]["body"]) if x.get("k") == "mcall" and x.get("name") == "status"]
            ck.check(st == [code], "R-STATUS", bs[0]["q"], "%s answers %d" % (fn, code), "%s status is %s" % (fn, st), ir.loc(bs[0]))
    tile_h = [h for h in hs if h.endswith("serve_tile")]
    if ck.anchor("R-STATUS", "serve_tile", tile_h, 1):
        b = P.fn(tile_h[0])
        # the decision on the lookup result, as an `if let .. else if let .. else` chain or as a `match`: evaluated for the three
        # possible outcomes (first matching pattern wins), the answer is the set of workspace calls of the selected branch
        def last(q):
            return absint.vname(q or "").rsplit("::", 1)[-1]

        def pat_matches(pat, outcome):
            k_ = pat.get("k")
            if k_ in ("wild", "bind"):
                return True
            if k_ == "ref":
                return pat_matches(pat["p"], outcome)
            if k_ == "or":
                return any(pat_matches(x, outcome) for x in pat.get("ps", ()))
            if k_ == "tstruct" and last(pat.get("q")) == outcome[0]:
                sub = pat["ps"][0] if pat.get("ps") else {"k": "wild"}
                if sub.get("k") in ("wild", "bind"):
                    return True
                sq = last(sub.get("q") or (sub.get("e") or {}).get("q"))
                return outcome[1] is not None and sq == outcome[1]
            return False

        def ws_calls(x):
            return sorted({last(y.get("q")) for y in ir.walk_nodes(x) if y.get("k") == "call" and (y.get("q") or "").startswith("versatiles::")})

        def is_result_pat(pat):
            return pat.get("k") == "tstruct" and last(pat.get("q")) in ("Ok", "Err")

        def decide(n, outcome):
            n = ir.unparen(n)
            if n.get("k") == "block" and not n.get("stmts") and n.get("tail") is not None and ir.unparen(n["tail"]).get("k") in ("if", "match"):
                return decide(n["tail"], outcome)
            if n.get("k") == "if" and n["c"].get("k") == "letx" and is_result_pat(n["c"]["pat"]):
                if pat_matches(n["c"]["pat"], outcome):
                    return ws_calls(n["then"])
                return decide(n["else"], outcome) if "else" in n else []
            if n.get("k") == "match" and any(is_result_pat(a["pat"]) for a in n["arms"]):
                for a in n["arms"]:
                    if "guard" not in a and pat_matches(a["pat"], outcome):
                        return ws_calls(a["body"])
                return ["?"]
            return ws_calls(n)
        root = next((n for n in ir.walk_nodes(b["body"]) if (n.get("k") == "if" and n["c"].get("k") == "letx" and is_result_pat(n["c"]["pat"])) or
                     (n.get("k") == "match" and any(is_result_pat(a["pat"]) for a in n["arms"]))), None)
        chain = {o: (decide(root, o) if root is not None else None) for o in (("Ok", "Some"), ("Ok", "None"), ("Err", None))}
        want = {("Ok", "Some"): ["ok_data"], ("Ok", "None"): ["error_404"], ("Err", None): ["error_400"]}
        ck.check(chain == want, "R-STATUS", b["q"], "Ok(Some)->ok_data(200), Err->400, otherwise 404", "status mapping is %s" % chain, ir.loc(b))
    gd = [b for b in P.bodies if b["q"].endswith("tile_source::TileSource::get_data")]
    if ck.anchor("R-STATUS", "TileSource::get_data", gd, 1):
        b = gd[0]
        # parse results are checked with ensure!/`?` (-> Err -> 400); lookup errors become Ok(None)
        parses = [n for n in ir.walk_nodes(b["body"]) if n.get("k") == "mcall" and n.get("name") == "parse"]
        ensures = sum(1 for n in ir.walk_nodes(b["body"]) if n.get("k") == "call" and n.get("q") == "anyhow::__private::not")
        ck.check(len(parses) == 3 and ensures >= 3, "R-STATUS", b["q"] + "|parse", "z/x/y parse failures are reported as Err (400)", "coordinate parsing is not guarded by three ensure! checks", ir.loc(b))
        look = [n for n in ir.walk_nodes(b["body"]) if n.get("k") == "mcall" and (n.get("q") or "").endswith("TilesReaderTrait::get_tile_data")]
        # what get_data makes of the three possible lookup results: evaluated abstractly (absint) from the statement that holds the
        # lookup to the end of its block, with the lookup replaced by Err / Ok(None) / Ok(Some(tile))
        outcome = {}
        why_l = ""
        if len(look) == 1:
            blk, at = None, None
            for n in ir.walk_nodes(ir.fn_block(b)):
                if n.get("k") == "block":
                    for i_, st in enumerate(ir.stmts_of(n)):
                        if ir.contains(st, lambda y: y is look[0]) and not ir.contains(st, lambda y: y.get("k") == "block" and y is not st and
                                                                                        any(ir.contains(s2, lambda z: z is look[0]) for s2 in ir.stmts_of(y))):
                            blk, at = n, i_
            if blk is not None:
                rest = ir.stmts_of(blk)[at:]
                for name, val in (("err", absint.err()), ("none", absint.ok(absint.NONE)), ("some", absint.ok(absint.some(("blob", "U"))))):
                    it = absint.Interp(P, handlers={"*TilesReaderTrait::get_tile_data": (lambda _s, _a, _n, v=val: v),
                                                    "*SourceResponse::new_some": (lambda _s, _a, _n: absint.some(("struct", {"resp": True}))),
                                                    "*mem::drop": (lambda _s, _a, _n: absint.OPAQUE)})
                    env = {}
                    try:
                        r = ("tuple", [])
                        for st in rest:
                            r = it.ev(st, env)
                        outcome[name] = r
                    except absint.Return as ret:
                        outcome[name] = ret.v
                    except (absint.Unsupported, KeyError, IndexError, TypeError) as ex:
                        outcome[name] = ("unsupported", str(ex))
                        why_l = "cannot evaluate the handling of the lookup result (%s)" % ex

        def is_ok_none(v):
            return absint.is_variant(v, "Result::Ok") and v[2] and absint.is_variant(v[2][0], "Option::None")

        def is_ok_some(v):
            return absint.is_variant(v, "Result::Ok") and v[2] and absint.is_variant(v[2][0], "Option::Some")
        shown = {k_: ("Ok(None)" if is_ok_none(v) else "Ok(Some(response))" if is_ok_some(v) else "Err" if absint.is_variant(v, "Result::Err") else str(v)[:40]) for k_, v in outcome.items()}
        ok_l = len(look) == 1 and len(outcome) == 3 and is_ok_none(outcome["err"]) and is_ok_none(outcome["none"]) and is_ok_some(outcome["some"])
        ck.check(ok_l, "R-STATUS", b["q"] + "|lookup-error", "lookup Err -> Ok(None) (404), Ok(None) -> Ok(None) (404), Ok(Some(tile)) -> a response (200): evaluated for the three lookup results",
                 "get_data maps the lookup results to %s%s: a failing or empty lookup must be answered as `no tile`, a found tile as a response" % (shown, "; " + why_l if why_l else ""), ir.loc(b))
        # 404 for a tile request only on the source's own answer: once the coordinate is built, no `Ok(None)` may be produced
        # before the reader was asked (the source decides which coordinates hold a tile — e.g. zoom level 31 is valid)
        if len(look) == 1:
            order = {id(n): i for i, n in enumerate(wire_eval_order(b["body"]))}
            tcn = [n for n in ir.walk_nodes(b["body"]) if n.get("k") == "call" and (n.get("q") or "").endswith("TileCoord3::new")]
            early = []
            for n in ir.walk_nodes(b["body"]):
                is_none = (n.get("k") == "call" and (n.get("q") or "").endswith("Result::Ok::{Ctor#0}") and n.get("a") and
                           (ir.strip(n["a"][0]).get("q") or "").endswith("Option::None::{Ctor#0}"))
                if is_none and tcn and order[id(tcn[0])] < order[id(n)] < order[id(look[0])]:
                    early.append(ir.loc(n))
            ck.check(not early, "R-STATUS", b["q"] + "|asks-source", "between building the coordinate and asking the reader no `Ok(None)` is produced: 404 is always the source's own answer",
                     "the tile endpoint answers `no tile` at %s without asking the source: a coordinate the source holds (e.g. on zoom level 31) gets 404" % early, ir.loc(b))
        # the coordinate handed to the reader is built from the three parsed parts in z/x/y order
        tc = [n for n in ir.walk_nodes(b["body"]) if n.get("k") == "call" and (n.get("q") or "").endswith("TileCoord3::new")]
        okc = False
        if tc and len(tc[0]["a"]) == 3:
            lets = comp.lets_of(b)

            def part_index(e, depth=0):
                """index of the path part (Vec<String> element) an expression is parsed from, through let chains"""
                if e is None or depth > 6:
                    return None
                for y in ir.walk_nodes(e):
                    if y.get("k") == "index" and "Vec<std::string::String>" in ((ir.strip(y["e"]).get("t") or "") + (ir.strip(y["e"]).get("ta") or "")):
                        v = ir.const_eval(y["i"], {})
                        if v is not None:
                            return v
                for y in ir.walk_nodes(e):
                    if y.get("k") == "path" and y.get("r") == "local" and y["hid"] in lets:
                        v = part_index(lets[y["hid"]], depth + 1)
                        if v is not None:
                            return v
                return None
            idx = [part_index(a) for a in tc[0]["a"]]
            okc = idx == [1, 2, 0]

            # z and x are parsed from the WHOLE path part (a part that merely starts with digits is not a number: `2abc`, `2.5`, `1e3` -> 400);
            # only y, which may carry the `.ext`, is cut at its leading digits
            def parse_source(e, depth=0):
                """(the str::parse call, the names of the adaptors between the path part and it) for an argument of TileCoord3::new"""
                if e is None or depth > 6:
                    return None
                for y in ir.walk_nodes(e):
                    if y.get("k") == "mcall" and (y.get("q") or "") == "str::parse":
                        ad = []
                        r = ir.strip(y["recv"])
                        seen_ = 0
                        while seen_ < 12:
                            seen_ += 1
                            if r.get("k") == "mcall":
                                ad.append(r["name"])
                                r = ir.strip(r["recv"])
                            elif r.get("k") == "call" and len(r.get("a", ())) == 1 and ir.local_hid(ir.strip(r.get("f", {}))) in lets if r.get("f") else False:
                                # a local closure applied to the part: its body counts
                                clo = ir.strip(lets[ir.local_hid(ir.strip(r["f"]))])
                                ad += [z["name"] for z in ir.walk_nodes(clo) if z.get("k") == "mcall"]
                                r = ir.strip(r["a"][0])
                            elif r.get("k") in ("ref", "deref", "un"):
                                r = ir.strip(r["e"])
                            elif r.get("k") == "path" and r.get("r") == "local" and r["hid"] in lets:
                                r = ir.strip(lets[r["hid"]])
                            else:
                                break
                        return y, [a_ for a_ in ad if a_ not in ("as_str", "as_ref", "deref", "borrow", "to_string", "to_owned", "clone")]
                for y in ir.walk_nodes(e):
                    if y.get("k") == "path" and y.get("r") == "local" and y["hid"] in lets:
                        v = parse_source(lets[y["hid"]], depth + 1)
                        if v is not None:
                            return v
                return None
            lossy = {}
            for nm, a in (("x", tc[0]["a"][0]), ("z", tc[0]["a"][2])):
                ps_ = parse_source(a)
                if ps_ is None:
                    lossy[nm] = ["no parse found"]
                elif ps_[1]:
                    lossy[nm] = ps_[1]
            ck.check(not lossy, "R-STATUS", b["q"] + "|zx-strict", "z and x are parsed from the whole path part (no prefix-taking adaptor before parse)",
                     "the %s part of a tile request is cut before it is parsed (%s): `2abc`, `2.5` or `1e3` are accepted as numbers and answered with a tile instead of 400" %
                     ("/".join(sorted(lossy)), {k: v[:4] for k, v in lossy.items()}), ir.loc(b))
        # a request with exactly the three parts z/x/y is a tile request: the branch is taken for len >= 3
        ar = [n for n in ir.walk_nodes(b["body"]) if n.get("k") == "if" and ir.cmp_norm(n["c"]) is not None and ir.cmp_norm(n["c"])[0].endswith(".len()") and
              tc and ir.contains(n["then"], lambda y: y is tc[0])]
        cn = ir.cmp_norm(ar[0]["c"]) if ar else None
        ck.check(cn is not None and cn[1:] in ((">=", "3"), (">", "2"), ("==", "3")), "R-STATUS", b["q"] + "|arity", "a path of three parts (z/x/y[.ext]) is treated as a tile request",
                 "the tile branch is taken under `%s`: a plain /z/x/y request is not answered as a tile" % (" ".join(cn) if cn else "no length test"), ir.loc(b))
        ck.check(okc, "R-STATUS", b["q"] + "|zxy", "path parts 0/1/2 are z/x/y and TileCoord3::new(x, y, z) receives them", "coordinate assembly does not follow /z/x/y", ir.loc(b))

    # ---------------- R-HANDLER-TOTAL
    t19 = census.load_table("panic_sites.json")
    tst = census.load_table("stream_sites.json")
    th = census.load_table("handler_sites.json")
    seen = P.reachable(hs)
    stats = {"auto": 0, "reviewed": 0, "shared": 0, "violation": 0}
    n_sites = 0
    for fq in sorted(seen):
        b = P.fn(fq)
        if b is None:
            continue
        for s in census.collect_sites(P, b):
            n_sites += 1
            if census.auto_discharge(s):
                stats["auto"] += 1
                continue
            e = th.get(s.key)
            lapsed = census.entry_lapsed(e, s) if e is not None else None
            if e is not None and lapsed is None:
                stats["reviewed"] += 1
                ck.ok("R-HANDLER-TOTAL", s.key, "reviewed: " + e["reason"], s.loc)
                continue
            sh_ = t19.get(s.key) or tst.get(s.key)
            if sh_ is not None and lapsed is None:
                from . import c19 as _c19
                lapsed = census.entry_lapsed(sh_, s) or _c19.validate_witness(P, sh_, s)
                if lapsed is None:
                    stats["shared"] += 1
                    continue
            stats["violation"] += 1
            chain = P.chain(seen, fq)
            ck.violation("R-HANDLER-TOTAL", s.key, "panic-capable %s site `%s` is reachable from HTTP handler %s and is not shown to be independent of the request: a panic "
                         "in a handler drops the connection instead of answering 400/404%s" % (
                             s.kind, s.desc, chain[0].rsplit("::", 1)[-1], " (reviewed entry lapsed: %s)" % (lapsed or census.entry_lapsed(sh_ or {}, s)) if (lapsed or sh_ is not None) else ""), s.loc)
    ck.anchor("R-HANDLER-TOTAL", "census size", n_sites, 60)
    ck.note("R-HANDLER-TOTAL: %d reachable bodies, %d sites: %s" % (len(seen), n_sites, stats))


    # ---------------- R-REQ-ARITH: arithmetic on request-derived coordinates in the lookups the handlers reach
    census.REQUEST_MODE["on"] = True
    try:
        n_ar = 0
        for fq in sorted(seen):
            b = P.fn(fq)
            if b is None or not any(t.endswith("TileCoord3") for t in b.get("in_t", ())):
                continue
            for s in census.collect_decode_sites(P, b, ()):
                n_ar += 1
                e = th.get(s.key)
                if e is not None:
                    ck.ok("R-REQ-ARITH", s.key, "reviewed: " + e["reason"], s.loc)
                    continue
                ck.violation("R-REQ-ARITH", s.key, "`%s` on a coordinate taken from the request without a dominating bound: an out-of-range x/y/z overflows "
                             "(panic with overflow checks on = dropped connection)" % s.desc, s.loc)
        ck.note("R-REQ-ARITH: %d unbounded arithmetic sites on request coordinates" % n_ar)
        ck.ok("R-REQ-ARITH", "scan", "all get_tile_data implementations reachable from the handlers were scanned for unbounded arithmetic on the requested coordinate")
    finally:
        census.REQUEST_MODE["on"] = False


def mutants(P):
    out = []
    q = UTIL + "optimize_compression"

    def wrong_tag(body):
        # first returned tuple tagged with a different compression
        def fn(n):
            for x in ir.walk_nodes(n):
                if x.get("k") == "path" and (x.get("q") or "").endswith("TileCompression::Brotli::{Ctor#0}"):
                    x["q"] = x["q"].replace("Brotli", "Gzip")
                    return
        return m_replace(body, lambda n: n.get("k") == "tup" and len(n.get("es", ())) == 2 and ir.contains(n, lambda y: (y.get("q") or "").endswith("compress_brotli")), fn)
    out.append(("optimize_compression: brotli body tagged gzip", q, wrong_tag))

    def drop_allowed_check(body):
        # `contains(Brotli)` guard replaced by true
        return m_replace(body, lambda n: n.get("k") == "mcall" and n.get("name") == "contains" and ir.contains(n, lambda y: (y.get("q") or "").endswith("TileCompression::Brotli::{Ctor#0}")),
                         lambda n: (n.clear(), n.update({"k": "lit", "lk": "bool", "v": True, "t": "bool"})))
    out.append(("optimize_compression: brotli chosen without checking the allowed set", q, drop_allowed_check))

    okd = [b["q"] for b in P.bodies if b["q"].endswith("tile_server::ok_data")]
    if okd:
        def swap_ce(body):
            hs_ = [x for x in ir.walk_nodes(body["body"]) if x.get("k") == "lit" and x.get("v") in ("gzip", "br")]
            if len(hs_) < 2:
                return False
            hs_[0]["v"], hs_[1]["v"] = hs_[1]["v"], hs_[0]["v"]
            return True
        out.append(("ok_data: Content-Encoding names exchanged", okd[0], swap_ce))
    st = [h for h in handlers(P) if h.endswith("serve_tile")]
    if st:
        def err_404(body):
            def fn(n):
                n["q"] = n["q"].replace("error_400", "error_404")
            return m_replace(body, lambda n: n.get("k") == "call" and (n.get("q") or "").endswith("error_400"), fn)
        out.append(("serve_tile: Err answered with 404", st[0], err_404))
    return out
