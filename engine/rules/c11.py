"""C11 — updating vector-tile properties leaves everything else in the tile untouched.

R-TABLE-FIDELITY  reading layer fields 3 (keys) / 4 (values) appends exactly one table entry on every path
                  (tags of untouched features stay encoded as table positions, duplicates are legal in MVT).
R-JOIN            the per-feature decision (keep / merge / replace / drop) evaluated for all valuations of id, row, replace, remove.
R-NAMED-LAYER     the only mutation of a layer in the update runner is dominated by `layer.name == args.layer_name`.
R-FEATURE-WRITE   id / geom_type / geom_data of a feature are written only by decoding or construction; the property
                  rewrite touches only tag_ids and keeps the relative order of retained features.
R-PBF             reader arms and writer keys of tile / layer / feature / value agree with each other and with MVT 2.1
                  (field number, wire type, codec), defaults extent 4096 / version 1 on both sides, unknown fields rejected.
E-COMP            the runner decodes with the source's declared compression and the stage declares Uncompressed.
"""
from . import comp, ir, mvt
from .report import m_drop_stmt, m_replace

META = {
    "level": "other",
    "explanation": (
        "Decides the structural part of C11: an effect analysis (possible numbers of list appends over all paths, early returns "
        "and `?` included, followed through PropertyManager into VTLPMap) shows whether reading a key/value entry is "
        "position-preserving; the runner's only layer mutation is dominated by the name comparison; a who-may-write census "
        "over VectorTileFeature shows id, geometry type and geometry bytes are never rewritten and the property rewrite "
        "only replaces tag_ids in order; the (field, wire type, codec) tables of the four PBF messages are extracted from the "
        "reader's match arms and the writer's key/value call sequence and compared with each other and with the MVT 2.1 "
        "table transcribed from the specification, so a shared deviation of reader and writer is caught too."),
    "not_decided": "value equality under GeoValue conversions (int64 is re-encoded as sint64: same value, different wire type); CSV join semantics; varint/zigzag arithmetic.",
    "trusted_base": ["MVT 2.1 table transcribed in rules/mvt.py", "ValueReader/ValueWriter primitives encode what their names say", "rustc name resolution"],
}


def _runner_output(ck, b):
    """every payload Runner::run hands on is uncompressed, as the stage declares: it is the re-encoded tile (VectorTile::to_blob) or
    the input after decompress(.., self.tile_compression) — never the input as it arrived."""
    blk = ir.fn_block(b)
    top = ir.stmts_of(blk)
    params = {x["hid"] for p_ in b["params"] for x in ir.pat_binds(p_)}
    lets = comp.lets_of(b)

    def is_decompress(e):
        return e is not None and ir.contains(e, lambda y: y.get("k") == "call" and (y.get("q") or "").endswith("compression::decompress") and
                                              ir.place_str(y["a"][1]).endswith("self.tile_compression"))

    def top_index(n):
        for i, st in enumerate(top):
            if st is n or ir.contains(st, lambda y: y is n):
                return i
        return None
    payloads = []
    for n in ir.walk_nodes(blk):
        if n.get("k") == "call" and (n.get("q") or "").endswith("Option::Some::{Ctor#0}") and n.get("a") and "Blob" in (n.get("t") or ""):
            payloads.append(n)
    bad = []
    for n in payloads:
        e = ir.strip(n["a"][0])
        seen = 0
        while e is not None and e.get("k") in ("try", "mcall") and seen < 6 and not (e.get("k") == "mcall" and (e.get("q") or "").endswith("VectorTile::to_blob")):
            e = ir.strip(e["e"] if e.get("k") == "try" else e["recv"])
            seen += 1
        if e is None:
            bad.append((ir.loc(n), "?"))
            continue
        if e.get("k") == "mcall" and (e.get("q") or "").endswith("VectorTile::to_blob"):
            continue
        if is_decompress(e):
            continue
        h = ir.local_hid(e)
        if h is not None and h not in params and is_decompress(lets.get(h)):
            continue
        if h is not None and h in params:
            # a parameter: fine only behind an unconditional `param = decompress(param, self.tile_compression)` at the top level
            at = top_index(n)
            re = [i for i, st in enumerate(top) if (st["e"] if st.get("k") == "semi" else st).get("k") == "assign" and
                  ir.local_hid((st["e"] if st.get("k") == "semi" else st)["l"]) == h and is_decompress((st["e"] if st.get("k") == "semi" else st)["r"])]
            if re and at is not None and min(re) < at:
                continue
            bad.append((ir.loc(n), "the input blob as it arrived (`%s`)" % ir.place_str(e)))
            continue
        bad.append((ir.loc(n), ir.place_str(e) or e.get("k")))
    ck.check(bool(payloads) and not bad, "E-COMP", b["q"] + "|output", "every payload the runner returns is the re-encoded tile or the decompressed input (%d return payload(s))" % len(payloads),
             "the runner can hand on %s while the stage declares Uncompressed: tiles from a compressed source leave the stage still compressed" % (bad[:2],), ir.loc(b))


def _props_rules(ck, P):
    """GeoProperties::update copies EVERY entry of the new properties over the old ones (overwriting insert, no filter / early exit);
    insert stores (key, value) — the join of R-JOIN rests on both"""
    from . import mvt
    up = [b for b in P.bodies if b["q"].endswith("geo::properties::GeoProperties::update")]
    ins = [b for b in P.bodies if b["q"].endswith("geo::properties::GeoProperties::insert")]
    if not ck.anchor("R-JOIN", "GeoProperties::update/insert", up + ins, 2):
        return
    b = up[0]
    lp = [n for n in ir.walk_nodes(b["body"]) if n.get("k") == "for"]
    ok = False
    if len(lp) == 1:
        kv = [x["hid"] for x in ir.pat_binds(lp[0]["pat"])]
        ps = [x for p_ in b["params"] for x in ir.pat_binds(p_) if x["name"] != "self"]
        over = ps and any(z.get("k") == "path" and z.get("r") == "local" and z.get("hid") == ps[0]["hid"] for z in ir.walk_nodes(lp[0]["iter"]))
        adapt = [y["name"] for y in ir.walk_nodes(lp[0]["iter"]) if y.get("k") == "mcall" and y.get("name") in ("filter", "skip", "take", "step_by", "take_while", "skip_while", "filter_map")]
        cnt = mvt.exit_counts(P, {"body": lp[0]["body"]}, lambda y: 1 if (y.get("k") == "mcall" and (y.get("q") or "").endswith(("BTreeMap::insert", "HashMap::insert")) and len(y.get("a", ())) == 2 and
                                                                      len(kv) == 2 and any(z.get("hid") == kv[0] for z in ir.walk_nodes(y["a"][0]) if z.get("k") == "path") and
                                                                      any(z.get("hid") == kv[1] for z in ir.walk_nodes(y["a"][1]) if z.get("k") == "path")) else None)
        esc = [y["k"] for y in ir.walk_nodes(lp[0]["body"]) if y.get("k") in ("break", "continue", "ret")]
        ok = bool(over) and not adapt and cnt == {1} and not esc
    ck.check(ok, "R-JOIN", b["q"], "update inserts (k, v) for every entry of the new properties, overwriting", "GeoProperties::update does not copy every new entry over the old ones", ir.loc(b))
    b = ins[0]
    ps = [x for p_ in b["params"] for x in ir.pat_binds(p_) if x["name"] != "self"]
    c = [y for y in ir.walk_nodes(b["body"]) if y.get("k") == "mcall" and (y.get("q") or "").endswith(("BTreeMap::insert", "HashMap::insert")) and len(y.get("a", ())) == 2]
    ck.check(len(c) == 1 and len(ps) == 2 and ir.local_hid(c[0]["a"][0]) == ps[0]["hid"] and ir.local_hid(c[0]["a"][1]) == ps[1]["hid"], "R-JOIN", b["q"], "insert stores (key, value)", "GeoProperties::insert does not store (key, value)", ir.loc(b))

NUMERIC_SHAPES = {
    # what a CSV cell must look like to be typed as a number (reviewed; compared as LANGUAGES, not as pattern texts)
    "f64": r"^-?[0-9]*\.[0-9]+$",
    "i64": r"^-[0-9]+$",
    "u64": r"^[0-9]+$",
}


def csv_typing_rule(ck, P):
    """R-JOIN|csv-typing: GeoValue::parse_str decides which CSV cells become numbers, and the join key is the parsed value rendered
    back to text — so what counts as a number decides which row matches which feature.  Every str::parse::<number>() in it sits in
    the then-branch of `REGEX.is_match(value)` on the function's own argument, and the language of that regex (parsed from the
    lazy_static pattern literal, regexlang.py) equals the reviewed shape for that type.  A bare f64 parse as fallback accepts
    `1e3`, `+5`, `inf`, `nan`, `5.` — text cells silently become numbers and the row `1e3` joins the feature with id 1000."""
    from . import grammar as g, regexlang
    fb = [b for b in P.bodies if b["q"].endswith("geo::value::GeoValue::parse_str")]
    if not ck.anchor("R-JOIN", "GeoValue::parse_str", fb, 1):
        return
    b = fb[0]
    vp = [x for p_ in b["params"] for x in ir.pat_binds(p_)]
    vh = vp[0]["hid"] if vp else None

    def pattern_of(q):
        ib = [x for x in P.bodies if x["q"].startswith("<" + q + " as core::ops::deref::Deref>::deref::__static_ref_initialize")]
        if not ib:
            return None, "no initialiser found"
        flags = [y["name"] for y in ir.walk_nodes(ib[0]["body"]) if y.get("k") == "mcall" and (y.get("q") or "").startswith("regex::") and y["name"] not in ("build", "unwrap", "new")]
        lits = [y["v"] for y in ir.walk_nodes(ib[0]["body"]) if y.get("k") == "lit" and y.get("lk") == "str"]
        if flags or len(lits) != 1:
            return None, "builder flags %s / %d literals" % (flags, len(lits))
        return lits[0], None
    n = 0
    for y, ps, _ in ir.walk(b["body"]):
        if not (y.get("k") == "mcall" and (y.get("q") or "") == "str::parse"):
            continue
        ty = (y.get("ga") or "[]").strip("[]")
        if ty not in NUMERIC_SHAPES:
            continue
        n += 1
        key = "%s|csv-typing|%s" % (b["q"], ty)
        if ir.local_hid(ir.strip(y["recv"])) != vh:
            ck.violation("R-JOIN", key, "parse::<%s> is applied to something else than the cell text" % ty, ir.loc(y))
            continue
        guards = []
        for i_, p_ in enumerate(ps):
            if p_.get("k") == "if" and ir.contains(p_["then"], lambda z: z is y):
                c = ir.unparen(ir.strip(p_["c"]))
                if c.get("k") == "mcall" and c.get("name") == "is_match" and (c.get("q") or "").startswith("regex::") and ir.local_hid(ir.strip(c["a"][0])) == vh:
                    guards.append(ir.strip(c["recv"]).get("q"))
        if len(guards) != 1 or not guards[0]:
            ck.violation("R-JOIN", key, "parse::<%s>() of a CSV cell is not guarded by exactly one `REGEX.is_match(cell)` (%d found): Rust's number parsers accept more than plain numbers "
                         "(`1e3`, `+5`, `inf`, `nan`, `5.`), so text cells become numbers and join the wrong feature" % (ty, len(guards)), ir.loc(y))
            continue
        pat, why = pattern_of(guards[0])
        if pat is None:
            ck.violation("R-JOIN", key, "the pattern of %s could not be read (%s)" % (guards[0].rsplit("::", 1)[-1], why), ir.loc(y))
            continue
        try:
            res = g.equivalent(regexlang.parse(pat), regexlang.parse(NUMERIC_SHAPES[ty]), munch=False)
        except g.Unextractable as e:
            ck.violation("R-JOIN", key, "the pattern `%s` is outside the supported regex subset (%s): its language is not decided" % (pat, e), ir.loc(y))
            continue
        if res[0]:
            ck.ok("R-JOIN", key, "a cell is parsed as %s exactly when it matches `%s` (language equal to the reviewed shape `%s`)" % (ty, pat, NUMERIC_SHAPES[ty]), ir.loc(y))
        else:
            ck.violation("R-JOIN", key, "cells typed as %s: the pattern `%s` differs from the reviewed shape `%s` — the text `%s` is %s" %
                         (ty, pat, NUMERIC_SHAPES[ty], res[1], "now a number" if res[2] else "no longer a number"), ir.loc(y))
    ck.anchor("R-JOIN", "number parses in GeoValue::parse_str", n, 3)
    # what is no number stays the cell's text
    fall = [y for y in ir.walk_nodes(b["body"]) if y.get("k") == "mcall" and y.get("name") in ("unwrap_or_else", "unwrap_or") and
            ir.contains(y["a"][0], lambda z: z.get("k") == "call" and (z.get("q") or "").endswith("GeoValue::String::{Ctor#0}") and
                        ir.contains(z, lambda w: w.get("k") == "path" and w.get("hid") == vh))]
    ck.check(len(fall) == 1, "R-JOIN", b["q"] + "|csv-typing|text", "a cell that is no number (or does not fit the number type) stays a String with the cell's text",
             "the fallback of parse_str is not String(cell text)", ir.loc(b))


def csv_bytes_rule(ck, P):
    """R-JOIN|csv-utf8: a CSV cell is the UTF-8 decoding of the bytes between its delimiters.  The cell parsers collect bytes and turn
    them into text with String::from_utf8 on every successful return; a byte turned into a char on its own (`char::from(b)`,
    `b as char`) reads the file as Latin-1, so a quoted `Köln` joins as `KÃ¶ln` - wrong value, and a wrong key if it is the id column."""
    fns = [b for b in P.bodies if b["q"].startswith("versatiles_core::utils::csv::parse_") and b["q"].endswith("_csv_string")]
    if not ck.anchor("R-JOIN", "csv cell parsers", fns, 2):
        return
    from . import mvt as _mvt
    for b in fns:
        lone = []
        for y, ps, _ in ir.walk(b["body"]):
            u8_to_char = (y.get("k") == "cast" and (y.get("t") or "") == "char" and (ir.strip(y["e"]).get("t") or "").replace("&", "") == "u8") or \
                (y.get("k") == "call" and (y.get("q") or "").endswith("From::from") and (y.get("t") or "") == "char" and y.get("a") and (ir.strip(y["a"][0]).get("t") or "").replace("&", "") == "u8")
            if u8_to_char and not any("format" in (p_.get("m") or "") or "bail" in (p_.get("m") or "") or "anyhow" in (p_.get("m") or "") for p_ in ps):
                lone.append(ir.loc(y))
        oks = [y for y in ir.walk_nodes(b["body"]) if y.get("k") == "call" and (y.get("q") or "").endswith("Result::Ok::{Ctor#0}") and (y.get("t") or "").startswith("std::result::Result<std::string::String")]
        utf8 = [y for y in ir.walk_nodes(b["body"]) if y.get("k") == "call" and (y.get("q") or "").endswith("String::from_utf8")]
        ck.check(not lone and not oks and len(utf8) >= 1, "R-JOIN", b["q"] + "|csv-utf8", "the cell text is String::from_utf8 of the collected bytes on every successful return",
                 "the cell text is not the UTF-8 decoding of the collected bytes (single bytes turned into chars at %s, direct Ok(String) returns: %d, from_utf8 calls: %d): "
                 "non-ASCII cells are read as Latin-1 and no longer equal what the data file says" % (lone[:3], len(oks), len(utf8)), ir.loc(b))



def rules(ck, P):
    _props_rules(ck, P)
    csv_typing_rule(ck, P)
    csv_bytes_rule(ck, P)
    mvt.table_fidelity(ck, P)
    mvt.repeated_kept(ck, P)
    mvt.pbf_rules(ck, P)
    mvt.feature_write_rule(ck, P)
    mvt.vtlp_rules(ck, P)
    mvt.eq_hash_rules(ck, P)
    mvt.total_order_rules(ck, P)
    # ---------------- R-NAMED-LAYER
    run = [b for b in P.bodies if b["q"].endswith("vectortiles_update_properties::Runner::run")]
    if ck.anchor("R-NAMED-LAYER", "Runner::run", run, 1):
        b = run[0]
        lets = comp.lets_of(b)
        loops = [n for n in ir.walk_nodes(b["body"]) if n.get("k") == "for" and "layers" in ir.place_str(n["iter"])]
        okn = False
        why = "no loop over tile.layers"
        if len(loops) == 1:
            lp = loops[0]
            lv = ir.pat_binds(lp["pat"])[0]
            sts = ir.stmts_of(lp["body"])
            guard_i = None
            for i, s in enumerate(sts):
                x = s["e"] if s.get("k") == "semi" else s
                if x.get("k") == "if" and ir.diverges(x["then"]) and "else" not in x:
                    c = ir.cmp_norm(x["c"])
                    if c and c[1] == "!=":
                        sides = {comp.deep_place(ir.unparen(x["c"])["l"], lets), comp.deep_place(ir.unparen(x["c"])["r"], lets)}
                        if any(s_.endswith(lv["name"] + ".name") for s_ in sides) and any(s_.endswith("self.args.layer_name") for s_ in sides):
                            guard_i = i
            muts = []
            for i, s in enumerate(sts):
                for y in ir.walk_nodes(s):
                    if y.get("k") == "mcall" and ir.local_hid(y["recv"]) == lv["hid"] and (y["recv"].get("ta", "").startswith("&mut") or y["recv"].get("t", "").startswith("&mut")) and \
                            y.get("name") not in ("iter", "get", "len"):
                        muts.append((i, y["name"]))
                    if y.get("k") in ("assign", "assignop") and ir.strip(y["l"]).get("k") == "field" and ir.local_hid(ir.strip(y["l"])["e"]) == lv["hid"]:
                        muts.append((i, "assign " + ir.place_str(y["l"])))
            okn = guard_i is not None and bool(muts) and all(i > guard_i for i, _ in muts)
            why = "guard at statement %s, mutations %s" % (guard_i, muts)
            if not okn and muts:
                # the positive spelling: `if layer.name == args.layer_name { ..every mutation.. }` (also what `.filter(|l| l.name == name)` means)
                def is_pos(x):
                    c_ = ir.cmp_norm(x["c"]) if x["c"].get("k") != "letx" else None
                    if not c_ or c_[1] != "==":
                        return False
                    u = ir.unparen(x["c"])
                    while u.get("k") == "un" and u.get("op") == "!":
                        u = ir.unparen(u["e"])
                    if u.get("k") != "bin":
                        return False
                    sd = {comp.deep_place(u["l"], lets), comp.deep_place(u["r"], lets)}
                    return any(s_.endswith(lv["name"] + ".name") for s_ in sd) and any(s_.endswith("self.args.layer_name") for s_ in sd)
                pos = [x for x in ir.walk_nodes(lp["body"]) if x.get("k") == "if" and is_pos(x)]
                mut_nodes = [y for y in ir.walk_nodes(lp["body"]) if (y.get("k") == "mcall" and ir.local_hid(y["recv"]) == lv["hid"] and (y["recv"].get("ta", "").startswith("&mut") or y["recv"].get("t", "").startswith("&mut")) and y.get("name") not in ("iter", "get", "len")) or
                             (y.get("k") in ("assign", "assignop") and ir.strip(y["l"]).get("k") == "field" and ir.local_hid(ir.strip(y["l"])["e"]) == lv["hid"])]
                okn = bool(pos) and all(any(ir.contains(x["then"], lambda z: z is y) for x in pos) for y in mut_nodes)
                if okn:
                    why = "positive guard"
        ck.check(okn, "R-NAMED-LAYER", b["q"], "every mutation of a layer follows `if layer.name != args.layer_name { continue }`", "layer mutation is not confined to the named layer (%s)" % why, ir.loc(b))
        # other mutations of the tile
        def is_tile_or_layers(e):
            e = ir.strip(e)
            if e is None:
                return False
            t_ = (e.get("t") or "") + (e.get("ta") or "")
            return "vector_tile::tile::VectorTile" in t_ or (e.get("k") == "field" and e.get("name") == "layers")
        tmut = [n["name"] for n in ir.walk_nodes(b["body"]) if n.get("k") == "mcall" and is_tile_or_layers(n["recv"]) and n["recv"].get("ta", "").startswith("&mut") and n["name"] not in ("iter_mut",)]
        ck.check(not tmut, "R-NAMED-LAYER", b["q"] + "|tile", "the layer list itself is not modified", "layer list modified by %s" % tmut, ir.loc(b))
        _join_table(ck, b)
        # E-COMP
        dc = comp.calls_to(b, "compression::decompress")
        okc = len(dc) == 1 and ir.place_str(dc[0]["a"][1]).endswith("self.tile_compression")
        ck.check(okc, "E-COMP", b["q"] + "|decode", "the tile is decoded with the runner's recorded source compression", "runner does not decompress with the recorded source compression", ir.loc(b))
        _runner_output(ck, b)
    bld = [b for b in P.bodies if b["q"].endswith("vectortiles_update_properties::Operation::build")]
    if ck.anchor("E-COMP", "Operation::build", bld, 1):
        b = bld[0]
        comp.stage_installed(ck, "R-NAMED-LAYER", "update_properties", b)
        st = [n for n in ir.walk_nodes(b["body"]) if n.get("k") == "struct" and (n.get("q") or "").endswith("::Runner")]
        okr = False
        if st:
            f = {x["name"]: ir.place_str(x["e"]) for x in st[0]["fields"]}
            okr = f.get("tile_compression", "").endswith(".tile_compression")
            fe = [x["e"] for x in st[0]["fields"] if x["name"] == "tile_compression"]
            okr = okr and bool(fe) and "TilesReaderParameters" in ((ir.strip(ir.strip(fe[0]).get("e") or {}).get("t") or "") + (ir.strip(ir.strip(fe[0]).get("e") or {}).get("ta") or ""))
        asg = [n for n in ir.walk_nodes(b["body"]) if n.get("k") == "assign" and ir.strip(n["l"]).get("k") == "field" and ir.strip(n["l"]).get("name") == "tile_compression"
               and "TilesReaderParameters" in ((ir.strip(ir.strip(n["l"])["e"]).get("t") or "") + (ir.strip(ir.strip(n["l"])["e"]).get("ta") or ""))]
        oka = len(asg) == 1 and (ir.strip(asg[0]["r"]).get("q") or "").endswith("TileCompression::Uncompressed::{Ctor#0}")
        # order: runner captures the compression before it is overwritten
        sts = ir.stmts_of(ir.fn_block(b)) if False else None
        ck.check(okr and oka, "E-COMP", b["q"], "the runner records the source's compression and the stage declares Uncompressed (the runner's output is never compressed)",
                 "compression bookkeeping of the update stage is inconsistent", ir.loc(b))
        if st and asg:
            order_ok = False
            for blk in ir.walk_nodes(b["body"]):
                if blk.get("k") == "block":
                    sts = ir.stmts_of(blk)
                    i1 = next((i for i, s in enumerate(sts) if ir.contains(s, lambda y: y is st[0])), None)
                    i2 = next((i for i, s in enumerate(sts) if ir.contains(s, lambda y: y is asg[0])), None)
                    if i1 is not None and i2 is not None and i1 != i2:
                        order_ok = i1 < i2
            ck.check(order_ok, "E-COMP", b["q"] + "|order", "the source compression is captured before the declared compression is overwritten", "declared compression is overwritten before the runner captures the source's", ir.loc(b))


def _join_table(ck, b):
    """The per-feature decision of the update stage, evaluated for all 16 valuations of
    (feature has the id field, data file has a row for it, replace_properties, remove_non_matching):
        no id field            -> kept unchanged
        id, row,   replace     -> replaced by the row          id, row,   merge -> updated with the row
        id, no row, remove     -> dropped                      id, no row, keep -> kept unchanged"""
    fm = [n for n in ir.walk_nodes(b["body"]) if n.get("k") == "mcall" and (n.get("q") or "").endswith("VectorTileLayer::filter_map_properties") and n["a"] and n["a"][0].get("k") == "closure"]
    if not ck.anchor("R-JOIN", "filter_map_properties closure", fm, 1):
        return
    clo = fm[0]["a"][0]
    pp = [x for p_ in clo["params"] for x in ir.pat_binds(p_)]
    ph = pp[0]["hid"] if pp else None

    def cond_kind(e):
        """which input a condition tests"""
        for y in ir.walk_nodes(e):
            if y.get("k") == "mcall" and y.get("name") == "get":
                if ir.local_hid(y["recv"]) == ph:
                    return "id"
                if ir.contains(y["recv"], lambda z: z.get("k") == "field" and z.get("name") == "properties_map"):
                    return "row"
            if y.get("k") == "field" and y.get("name") == "replace_properties":
                return "replace"
            if y.get("k") == "field" and y.get("name") == "remove_non_matching":
                return "remove"
        return None

    class Ret(Exception):
        def __init__(self, v):
            self.v = v

    LOGGING = ("warn!(", "log::warn!(", "trace!(", "debug!(", "info!(", "error!(", "log::trace!(", "log::debug!(", "log::info!(", "log::error!(", "eprintln!(", "println!(")

    def run(n, env, st):
        k = n.get("k")
        if (n.get("src") or "").lstrip().startswith(LOGGING):
            return None      # logging has no effect on the decision
        if k == "block":
            for x in n.get("stmts", ()):
                run(x, env, st)
            if "tail" in n:
                return run(n["tail"], env, st)
            return None
        if k == "semi":
            return run(n["e"], env, st)
        if k == "if":
            c = ir.unparen(n["c"])
            neg = False
            while c.get("k") == "un" and c.get("op") == "!":
                c, neg = ir.unparen(c["e"]), not neg
            ck_ = cond_kind(c["init"] if c.get("k") == "letx" else c)
            if ck_ is None:
                raise Ret(("unknown-condition", ir.loc(n)))
            truth = env[ck_] != neg
            if c.get("k") == "letx" and not (c["pat"].get("q") or "").endswith("Some::{Ctor#0}"):
                truth = not truth
            if truth:
                return run(n["then"], env, st)
            if "else" in n:
                return run(n["else"], env, st)
            return None
        if k == "ret":
            e = ir.unparen(n["e"]) if "e" in n else None
            raise Ret(("dropped",) if e is not None and (e.get("q") or "").endswith("None::{Ctor#0}") else ("returned-other",))
        if k == "assign" and ir.local_hid(n["l"]) == ph:
            st["state"] = "replaced" if ir.contains(n["r"], lambda y: y.get("k") == "mcall" and y.get("name") in ("clone", "to_owned")) else "assigned-other"
            return None
        if k == "mcall" and ir.local_hid(n["recv"]) == ph and n.get("name") == "update":
            st["state"] = "merged" if st["state"] == "unchanged" else st["state"] + "+merged"
            return None
        if k == "call" and (n.get("q") or "").endswith("Some::{Ctor#0}") and n.get("a") and ir.local_hid(n["a"][0]) == ph:
            return ("kept", st["state"])
        if k == "call" and (n.get("q") or "").endswith("None::{Ctor#0}"):
            return ("dropped",)
        if k == "path" and (n.get("q") or "").endswith("None::{Ctor#0}"):
            return ("dropped",)
        if k in ("match", "for", "while", "loop"):
            raise Ret(("unsupported-control-flow", ir.loc(n)))
        return None
    bad = []
    n_val = 0
    for idp in (False, True):
        for row in (False, True):
            for rep in (False, True):
                for rem in (False, True):
                    n_val += 1
                    env = {"id": idp, "row": row, "replace": rep, "remove": rem}
                    st = {"state": "unchanged"}
                    try:
                        res = run(clo["body"], env, st)
                    except Ret as r:
                        res = r.v
                    if not idp:
                        want = ("kept", "unchanged")
                    elif row:
                        want = ("kept", "replaced" if rep else "merged")
                    else:
                        want = ("dropped",) if rem else ("kept", "unchanged")
                    if res != want:
                        bad.append("id=%s row=%s replace=%s remove=%s: %s, expected %s" % (idp, row, rep, rem, res, want))
    ck.check(not bad, "R-JOIN", b["q"] + "|decision", "the join decision is the documented table for all %d valuations (id present, row found, replace, remove)" % n_val,
             "the per-feature join decision differs from the documented one: %s" % bad[:3], ir.loc(clo))


def mutants(P):
    out = []
    L = "versatiles_geometry::vector_tile::layer::VectorTileLayer::"

    def swap_fields(body):
        lits = [n for n in ir.walk_nodes(body["body"]) if n.get("k") == "match" and ir.contains(n["e"], lambda y: y.get("k") == "mcall" and y.get("name") == "read_pbf_key")]
        if not lits:
            return False
        for a in lits[0]["arms"]:
            p = a["pat"]
            if p.get("k") == "tuple" and p["ps"][0].get("k") == "expr" and p["ps"][0]["e"].get("v") == 5:
                p["ps"][0]["e"]["v"] = 6
                return True
        return False
    out.append(("layer reader: extent read from field 6", L + "read", swap_fields))

    def writer_wire(body):
        def fn(n):
            n["a"][1]["v"] = 0
        return m_replace(body, lambda n: n.get("k") == "mcall" and n.get("name") == "write_pbf_key" and ir.const_eval(n["a"][0], {}) == 3, fn)
    out.append(("layer writer: keys written with wire type 0", L + "to_blob", writer_wire))

    def sort_features(body):
        def fn(n):
            n["name"] = "rev"
        return m_replace(body, lambda n: n.get("k") == "mcall" and n.get("name") == "into_iter", fn)
    out.append(("filter_map_properties: feature order reversed", L + "filter_map_properties", sort_features))

    def no_guard(body):
        return m_drop_stmt(body, lambda n: n.get("k") == "continue")
    out.append(("update runner: layer-name guard removed", "versatiles_pipeline::operations::transform::vectortiles_update_properties::Runner::run", no_guard))

    def cond_push(body):
        for n in ir.walk_nodes(body["body"]):
            if n.get("k") == "block":
                for i, st in enumerate(n.get("stmts", [])):
                    x = st["e"] if st.get("k") == "semi" else st
                    if x.get("k") == "mcall" and x.get("q") == "alloc::vec::Vec::push" and ir.place_str(x["recv"]) in ("keys", "values"):
                        n["stmts"][i] = {"k": "if", "t": "()", "s": x["s"], "c": {"k": "path", "r": "local", "name": "dedup", "hid": 77777, "t": "bool"},
                                         "then": {"k": "block", "stmts": [st], "s": x["s"]}}
                        return True
        return False
    out.append(("layer reader: table entry appended only conditionally (de-duplication)", L + "read", cond_push))

    def default_extent(body):
        for n in ir.walk_nodes(body["body"]):
            if n.get("k") == "let" and n["pat"].get("k") == "bind" and n["pat"]["name"] == "extent":
                n["init"]["v"] = 256
                return True
        return False
    out.append(("layer reader: default extent 256", L + "read", default_extent))
    return out
