"""C19 — decoders report malformed input as an error and never bring the process down.

R-PANIC  census of panic-capable sites (explicit panics/asserts, unwrap/expect, indexing, integer division, variable
         shifts, panicking std calls) reachable from the decoding entry points; each site is auto-discharged by a
         dominating guard, covered by a reviewed-table entry (re-validated witness), a known finding, or reported.
R-REC    every recursive cycle in the reachable call graph is structural (descent into owned sub-values / fields of
         self), consuming (all members take a parser cursor) or bounded (depth parameter compared with a constant), or
         it is reviewed; anything else can overflow the stack on crafted input.
R-ALLOC  allocation sized by a decoded length must be dominated by a comparison that bounds it.
R-ARITH  + - * on decoded integers must be bounded by a dominating comparison or use checked/saturating/wrapping ops.
"""
import sys

from . import census, ir

META = {
    "level": "other",
    "explanation": (
        "Decides, for every function reachable from the decoding entry points (JSON/TileJSON/CSV/VPL parsers, pipeline "
        "factory, vector-tile decoder, the five container openers, get_reader and every single-tile lookup; class-hierarchy "
        "resolution of dyn calls, closures with their parents, fn items passed as values), that no panic-capable construct "
        "depends on input bytes: each site (explicit panic/assert/todo, unwrap/expect, index/slice, integer / and %, "
        "variable shift, panicking std call) is discharged by a dominating guard found by a path-fact analysis (length, "
        "is_some/is_none, range-loop and constant-index reasoning), by a one-site reviewed-table entry whose witness is "
        "re-validated on every run, or it is reported. Recursive cycles must be structural, consuming or bounded. "
        "Allocations and arithmetic on decoded integers need a dominating bound. The census size is floored so the rule "
        "cannot pass vacuously."),
    "not_decided": "aborts inside dependencies (brotli, flate2, tar, rusqlite, image); stack depth of consuming recursions for 'moderate nesting'; CPU-time blow-ups; arithmetic outside decode dataflow; mutation between a length guard and its use.",
    "trusted_base": ["external crates do not panic on malformed data", "rustc name resolution and types", "reviewed-table reasons were read against the code (tables/panic_sites.json)",
                     "class-hierarchy call graph over-approximates dynamic dispatch"],
}

ENTRY_SUFFIXES = (
    "::json::parse::parse_json_str", "::json::parse::parse_json_iter", "::utils::csv::read_csv_iter", "::helpers::csv::read_csv_file",
    "::vpl::parser::parse_vpl", "PipelineFactory::operation_from_vpl", "VectorTile::from_blob", "::getters::get_reader",
    "Reader::open_path", "Reader::open_reader", "TileJSON::try_from_blob_or_default",
    # the lazy half of decoding a vector tile: geometries and properties of a decoded feature (both have an error channel)
    "VectorTileLayer::to_features", "VectorTileFeature::to_feature", "VectorTileFeature::to_geometry", "VectorTileFeature::decode_properties",
)
ENTRY_TRAIT_ITEMS = ("TilesReaderTrait::get_tile_data", "OperationTrait::get_tile_data")
STD_GENERIC = ("core::cmp::", "core::convert::", "core::clone::", "core::fmt::", "core::hash::", "core::default::", "core::ops::",
               "core::iter::", "core::borrow::", "alloc::string::ToString", "alloc::borrow::")
CURSOR_TYPES = ("ByteIterator",)


def entries(P):
    out = []
    for b in P.bodies:
        if b["dk"] not in ("Fn", "AssocFn"):
            continue
        q = b["q"]
        if q.endswith(ENTRY_SUFFIXES):
            out.append(q)
        elif b.get("trait_item", "").endswith(ENTRY_TRAIT_ITEMS):
            out.append(q)
        elif "TileJSON" in q and "TryFrom" in q and q.endswith("::try_from"):
            out.append(q)
    return sorted(set(out))


def callers_of(P, fq):
    memo = P.__dict__.setdefault("_memo", {}).setdefault("callers", None)
    if memo is None:
        memo = {}
        for b in P.bodies:
            for n in ir.walk_nodes(b["body"]):
                if n.get("k") in ("call", "mcall", "path"):
                    t = n.get("rvq") or n.get("q")
                    if t in P.by_q:
                        memo.setdefault(t, set()).add(b["q"])
        P._memo["callers"] = memo
    return memo.get(fq, set())


def validate_witness(P, e, site):
    """re-validate the structural witness of a reviewed-table entry; returns None if fine, else why it lapsed"""
    w = e.get("witness")
    if not w:
        return None
    if isinstance(w, list):
        for x in w:
            r = validate_witness(P, {"witness": x}, site)
            if r:
                return r
        return None
    kind = w["kind"]
    if kind == "fn_has_guard":
        b = P.fn(w["fn"])
        if b is None:
            return "function %s is gone" % w["fn"]
        for n in ir.walk_nodes(b["body"]):
            if n.get("k") == "if" and ir.diverges(n["then"]):
                places = {ir.place_str(x) for x in ir.walk_nodes(n["c"]) if x.get("k") in ("field", "path", "mcall")}
                if all(any(m in p_ for p_ in places) for m in w["mentions"]):
                    return None
        return "no early-exit guard mentioning %s in %s" % (w["mentions"], w["fn"])
    if kind == "guard_before_publish":
        # the validating guard must be evaluated before the value is published (cached / stored): a value that enters a
        # cache first is handed to later callers by the cache-hit path without ever passing the guard
        b = P.fn(w["fn"])
        if b is None:
            return "function %s is gone" % w["fn"]
        order = {id(n): i for i, n in enumerate(ir.walk_nodes(b["body"]))}
        guards = []
        for n in ir.walk_nodes(b["body"]):
            if n.get("k") == "if" and ir.diverges(n["then"]):
                places = {ir.place_str(x) for x in ir.walk_nodes(n["c"]) if x.get("k") in ("field", "path", "mcall")}
                if all(any(m in p_ for p_ in places) for m in w["mentions"]):
                    guards.append(n)
        if not guards:
            return "no early-exit guard mentioning %s in %s" % (w["mentions"], w["fn"])
        pubs = [n for n in ir.walk_nodes(b["body"]) if n.get("k") == "mcall" and n.get("name") in w["publish"] and any(t in (n.get("q") or "") for t in ("LimitedCache::", "HashMap::", "BTreeMap::"))]
        if not pubs:
            return "no publishing call (%s) in %s" % (w["publish"], w["fn"])
        late = [n for n in pubs if order[id(n)] < min(order[id(g)] for g in guards)]
        return None if not late else "the value is published by `%s` at %s before the guard on %s is evaluated: later cache hits skip the guard" % (late[0]["name"], ir.loc(late[0]), w["mentions"])
    if kind == "counter_bound":
        # the shift/index operand is a loop counter: starts at a constant, is only ever increased by a constant step, and a diverging
        # guard `counter >= K` follows the increment; at the use (before the increment) its values are 0, step, 2·step, … < K, so the
        # largest one must not exceed `max`
        b = P.fn(site.fn)
        n = site.node
        cnt = ir.local_hid(n["r"]) if n.get("k") in ("bin", "assignop") else None
        if cnt is None:
            return "the operand is not a local counter"
        init = [x for x in ir.walk_nodes(b["body"]) if x.get("k") == "let" and x["pat"].get("k") == "bind" and x["pat"]["hid"] == cnt and "init" in x]
        incs = [x for x in ir.walk_nodes(b["body"]) if x.get("k") in ("assignop", "assign") and ir.local_hid(x["l"]) == cnt]
        if len(init) != 1 or ir.const_eval(init[0]["init"], {}) is None or len(incs) != 1 or incs[0].get("k") != "assignop" or not incs[0].get("op", "").startswith("+"):
            return "counter is not `let c = const; … c += const` (init %d, updates %d)" % (len(init), len(incs))
        start, step = ir.const_eval(init[0]["init"], {}), ir.const_eval(incs[0]["r"], {})
        if step is None or step <= 0:
            return "counter step is not a positive constant"
        ks = []
        for x in ir.walk_nodes(b["body"]):
            if x.get("k") == "if" and ir.diverges(x["then"]):
                c = ir.unparen(x["c"])
                if c.get("k") == "bin" and c.get("op") in (">=", ">") and ir.local_hid(c["l"]) == cnt and ir.const_eval(c["r"], {}) is not None:
                    ks.append(ir.const_eval(c["r"], {}) + (1 if c["op"] == ">" else 0))
        if not ks:
            return "no diverging guard `counter >= K`"
        order = {id(x): i for i, x in enumerate(ir.walk_nodes(b["body"]))}
        if not order[id(n)] < order[id(incs[0])]:
            return "the use does not precede the increment"
        K = min(ks)
        top = start + ((K - 1 - start) // step) * step
        return None if top <= w["max"] else "the counter reaches %d at the use (start %d, step %d, guard >= %d) but at most %d is safe" % (top, start, step, K, w["max"])
    if kind == "callers_are":
        cs = callers_of(P, site.fn)
        extra = sorted(c for c in cs if c not in set(w["callers"]) and c != site.fn)
        return None if not extra else "new caller(s) %s" % extra
    if kind == "fact":
        # a dominating path fact (rendered) must still be present
        rendered = {census.norm_text(site.tymap, " ".join(map(str, f[1:]))) for f in site.facts}
        return None if census.norm_text(site.tymap, w["fact"]) in rendered else "dominating guard `%s` is gone (facts: %s)" % (w["fact"], sorted(rendered)[:6])
    if kind == "set_once":
        # a guard compares against a remembered first value: the memo (a local Option) is written only while it is still None
        # (assignment in the None branch of `if let Some(x) = memo`, or get_or_insert*); anything that overwrites a present value
        # (replace / insert / take / a plain assignment elsewhere) makes the guard compare against a moving value
        b = P.fn(w["fn"])
        if b is None:
            return "function %s is gone" % w["fn"]
        memos = {}
        for y in ir.walk_nodes(b["body"]):
            if y.get("k") == "let" and y["pat"].get("k") == "bind" and (y["pat"].get("t") or "").replace("std::option::", "").startswith("Option<") and w["type"] in (y["pat"].get("t") or ""):
                memos[y["pat"]["hid"]] = y["pat"]["name"]
        if not memos:
            return "no %s memo in %s" % (w["type"], w["fn"])
        okm = []
        for h in memos:
            bad = []
            # branches where the memo is known to be None
            none_regions = []
            for y in ir.walk_nodes(b["body"]):
                if y.get("k") == "if" and ir.unparen(y["c"]).get("k") == "letx" and ir.local_hid(ir.unparen(y["c"])["init"]) == h and \
                        (ir.unparen(y["c"])["pat"].get("q") or "").endswith("Option::Some::{Ctor#0}") and "else" in y:
                    none_regions.append(y["else"])
                if y.get("k") == "if" and ir.contains(y["c"], lambda z: z.get("k") == "mcall" and z.get("name") == "is_none" and ir.local_hid(z["recv"]) == h):
                    none_regions.append(y["then"])
                if y.get("k") == "match" and ir.local_hid(y.get("e") or {}) == h:
                    for a in y.get("arms", ()):
                        if (a["pat"].get("q") or "").endswith("Option::None::{Ctor#0}"):
                            none_regions.append(a["body"])
            for y in ir.walk_nodes(b["body"]):
                if y.get("k") in ("assign", "assignop") and ir.local_hid(y["l"]) == h:
                    if not any(ir.contains(r, lambda z: z is y) for r in none_regions):
                        bad.append("assignment at %s outside the branch where it is None" % ir.loc(y))
                if y.get("k") == "mcall" and ir.local_hid(y["recv"]) == h and y.get("name") in ("replace", "insert", "take", "as_mut", "take_if", "zip", "map_or_else", "iter_mut", "as_deref_mut"):
                    bad.append("%s(..) at %s" % (y["name"], ir.loc(y)))
                if y.get("k") == "ref" and "mut" in (y.get("t") or "")[:5] and ir.local_hid(y["e"]) == h:
                    bad.append("&mut borrow at %s" % ir.loc(y))
            guard = any(y.get("k") == "if" and ir.diverges(y["then"]) and ir.cmp_norm(y["c"]) is not None and ir.cmp_norm(y["c"])[1] in ("!=", "==", "<", ">", "<=", ">=") and
                        ir.contains(y["c"], lambda z: z.get("k") == "mcall" and z.get("name") == "len") for y in ir.walk_nodes(b["body"]))
            if not bad and guard:
                okm.append(h)
            elif bad:
                return "the remembered value `%s` in %s can be overwritten after it was set (%s): rows are compared with a moving value, not with the first row" % (memos[h], w["fn"].rsplit("::", 1)[-1], "; ".join(bad[:2]))
        return None if okm else "no early-exit length comparison in %s" % w["fn"]
    if kind == "body_contains":
        b = P.fn(site.fn)
        okc = ir.contains(b["body"], lambda y: (y.get("q") or "").endswith(w["callee"]) or y.get("name") == w["callee"])
        return None if okc else "body no longer calls %s" % w["callee"]
    if kind == "ctor_confined":
        adt = w["adt"]
        bad = []
        for b in P.bodies:
            inside = b.get("self_adt") == adt or b["q"].startswith(adt + "::")
            for n in ir.walk_nodes(b["body"]):
                if n.get("k") == "struct" and n.get("q") == adt and not inside:
                    bad.append("literal in " + b["q"])
                if n.get("k") in ("assign", "assignop") and n["l"].get("k") == "field" and n["l"]["name"] in ("z", "level", "max") \
                        and adt.rsplit("::", 1)[-1] in (n["l"]["e"].get("t", "") + n["l"]["e"].get("ta", "")) and not inside:
                    bad.append("field write in " + b["q"])
        return None if not bad else "constructor confinement broken: %s" % bad[:3]
    return "unknown witness kind"


# ------------------------------------------------------------------ recursion

def pruned_callgraph(P, nodes):
    cg = {}
    for fq in nodes:
        b = P.fn(fq)
        if b is None:
            continue
        edges = {}
        for n in ir.walk_nodes(b["body"]):
            k = n.get("k")
            if k in ("call", "mcall", "bin", "un", "index", "assignop") or (k == "path" and n.get("r") == "def" and n.get("dk") in ("Fn", "AssocFn")):
                q = n.get("q") or ""
                if not n.get("rvq") and q.startswith(STD_GENERIC):
                    continue  # type-directed std trait call: callee fixed by the value's (finite) type
                for t in P.targets_of(n):
                    if t in nodes:
                        edges.setdefault(t, []).append(n)
        cg[fq] = edges
    return cg


def sccs(cg):
    sys.setrecursionlimit(20000)
    index, low, stack, on, out, idx = {}, {}, [], set(), [], [0]

    def strong(v):
        index[v] = low[v] = idx[0]
        idx[0] += 1
        stack.append(v)
        on.add(v)
        for w in cg.get(v, ()):
            if w not in index:
                strong(w)
                low[v] = min(low[v], low[w])
            elif w in on:
                low[v] = min(low[v], index[w])
        if low[v] == index[v]:
            comp = []
            while True:
                w = stack.pop()
                on.discard(w)
                comp.append(w)
                if w == v:
                    break
            if len(comp) > 1 or v in cg.get(v, ()):
                out.append(sorted(comp))
    for v in sorted(cg):
        if v not in index:
            strong(v)
    return out


STD_DESCENT_OK = ("core::", "alloc::", "std::", "futures", "itertools::", "[T]::", "str::")


def descent_roots(b):
    """locals that denote a strict sub-value of a parameter: bound by a pattern / for / closure parameter from an
    expression rooted at a parameter (or at such a local), through field/index/iteration steps and std accessors only"""
    params = {x["hid"] for p in b.get("params", ()) for x in ir.pat_binds(p)}
    al = ir.Aliases(b)
    for h, o in list(al.m.items()):
        if al.canon(h) in params:
            params.add(h)
    sub = set()

    def rooted(e, need_step):
        """is e rooted at a param/sub local via field/index/std-accessor steps? returns (ok, steps)"""
        e = ir.strip(e)
        steps = 0
        while e is not None:
            k = e.get("k")
            if k in ("field", "index"):
                steps += 1
                e = ir.strip(e["e"])
            elif k in ("try", "await", "cast"):
                e = ir.strip(e["e"])
            elif k == "mcall":
                q = e.get("q") or ""
                if not q.startswith(STD_DESCENT_OK):
                    return (False, steps)
                if e.get("name") in ("iter", "iter_mut", "into_iter", "values", "keys", "get", "get_mut", "first", "last", "as_ref", "as_mut", "as_slice", "deref", "unwrap", "expect", "clone", "borrow", "lock", "map", "filter", "enumerate", "rev", "zip", "cloned", "copied", "as_deref"):
                    e = ir.strip(e["recv"])
                else:
                    return (False, steps)
            elif k == "call" and (e.get("q") or "").endswith("IntoIterator::into_iter") and e.get("a"):
                e = ir.strip(e["a"][0])
            elif k == "path" and e.get("r") == "local":
                if e["hid"] in sub:
                    return (True, steps + 1)
                if e["hid"] in params:
                    return (steps > 0 or not need_step, steps)
                return (False, steps)
            else:
                return (False, steps)
        return (False, steps)
    changed = True
    while changed:
        changed = False
        for n in ir.walk_nodes(b["body"]):
            k = n.get("k")
            src, pats = None, []
            if k == "for":
                src, pats = n["iter"], [n["pat"]]
            elif k == "match":
                src, pats = n["e"], [a["pat"] for a in n["arms"]]
            elif k == "letx":
                src, pats = n["init"], [n["pat"]]
            elif k == "let" and "init" in n and n["pat"].get("k") != "bind":
                src, pats = n["init"], [n["pat"]]
            elif k == "let" and "init" in n:
                okr, st = rooted(n["init"], True)
                if okr:
                    for x in ir.pat_binds(n["pat"]):
                        if x["hid"] not in sub:
                            sub.add(x["hid"])
                            changed = True
                continue
            elif k == "mcall" and n.get("a") and n["a"][0].get("k") == "closure" and (n.get("q") or "").startswith(STD_DESCENT_OK):
                okr, st = rooted(n["recv"], False)
                if okr:
                    for p in n["a"][0].get("params", ()):
                        for x in ir.pat_binds(p):
                            if x["hid"] not in sub:
                                sub.add(x["hid"])
                                changed = True
                continue
            if src is not None:
                okr, st = rooted(src, False)
                if okr:
                    for p in pats:
                        if p.get("k") == "bind" and st == 0 and k in ("match", "letx"):
                            continue  # plain rebinding of the parameter is not a descent
                        for x in ir.pat_binds(p):
                            if x["hid"] not in sub:
                                sub.add(x["hid"])
                                changed = True
    return params, sub, rooted


def _const_like(txt):
    return txt.isdigit() or txt in ir.CONSTS or any(k.endswith("::" + txt) for k in ir.CONSTS) or txt.rsplit("::", 1)[-1].isupper()


def _bounded(P, comp, cg):
    members = set(comp)
    depth_param = {}   # fn -> (index, canonical hid, name)
    info = {}
    for f in comp:
        b = P.fn(f)
        al = ir.Aliases(b)
        cands = []
        for i, p in enumerate(b.get("params", ())):
            bs = ir.pat_binds(p)
            if len(bs) == 1 and bs[0]["t"] in census.INT_TYPES:
                cands.append((i, bs[0]["hid"], bs[0]["name"]))
        info[f] = (b, al, cands)
    # choose, per member, the int parameter that is used as the forwarded depth (try each candidate of each member)
    def edge_kind(f, n, g, gi, fhid, al):
        args = ([n["recv"]] if n.get("k") == "mcall" else []) + list(n.get("a", ()))
        if n.get("k") == "path" or gi >= len(args):
            return None
        a = ir.unparen(ir.strip(args[gi]))
        if a.get("k") == "path" and al.hid(a) == fhid:
            return "same"
        if a.get("k") == "bin" and a.get("op") == "+" and al.hid(a["l"]) == fhid and (ir.const_eval(a["r"], {}) or 0) > 0:
            return "inc"
        return None
    import itertools as _it
    choices = [info[f][2] for f in comp]
    if any(not c for c in choices):
        return False, None
    for combo in _it.product(*choices):
        dp = dict(zip(comp, combo))
        inc_free = {f: set() for f in comp}
        okc = True
        for f in comp:
            b, al, _ = info[f]
            fhid = dp[f][1]
            for g, nodes in cg[f].items():
                if g not in members:
                    continue
                for n in nodes:
                    k = edge_kind(f, n, g, dp[g][0], fhid, al)
                    if k is None:
                        okc = False
                    elif k == "same":
                        inc_free[f].add(g)
            if not okc:
                break
        if not okc:
            continue
        # the increment-free subgraph must be acyclic
        if sccs(inc_free):
            continue
        # some member rejects large depths
        def bounds_depth(facts, nm):
            for f_ in facts:
                if f_[0] == "cmp":
                    _, a, op, b_ = f_
                    if a == nm and _const_like(b_) and op in ("<", "<="):
                        return True
                    if b_ == nm and _const_like(a) and op in (">", ">="):
                        return True
            return False
        for f in comp:
            b, al, _ = info[f]
            nm = dp[f][2]
            for n in ir.walk_nodes(b["body"]):
                if n.get("k") != "if":
                    continue
                if ir.diverges(n["then"]):
                    fs = []
                    census.cond_facts(n["c"], False, fs)
                    if bounds_depth(fs, nm):
                        return True, "depth parameter `%s` of %s is compared with a constant before an early exit; every cycle increments it" % (nm, f.rsplit("::", 1)[-1])
                else:
                    fs = []
                    census.cond_facts(n["c"], True, fs)
                    rec_in_then = ir.contains(n["then"], lambda y: y.get("k") in ("call", "mcall") and any(t in members for t in P.targets_of(y)))
                    rec_elsewhere = any(ir.contains(x, lambda y: y.get("k") in ("call", "mcall") and any(t in members for t in P.targets_of(y)))
                                        for x in ([n["else"]] if "else" in n else []))
                    if bounds_depth(fs, nm) and rec_in_then and not rec_elsewhere:
                        # all recursive calls of this member must be inside this branch
                        total = sum(1 for y in ir.walk_nodes(b["body"]) if y.get("k") in ("call", "mcall") and any(t in members for t in P.targets_of(y)))
                        inside = sum(1 for y in ir.walk_nodes(n["then"]) if y.get("k") in ("call", "mcall") and any(t in members for t in P.targets_of(y)))
                        if total == inside:
                            return True, "recursive calls are made only under a comparison of depth parameter `%s` with a constant; every cycle increments it" % nm
    return False, None


def classify_scc(P, comp, cg):
    """returns (class, detail) — class in structural/consuming/bounded/unclassified"""
    members = set(comp)
    # consuming: every member takes a parser cursor
    def takes_cursor(b):
        for t in b.get("in_t", ()):
            if any(c in t for c in CURSOR_TYPES):
                return True
        # nom parser: (&str) -> IResult<&str, _>
        if b.get("in_t") and b["in_t"][0].startswith("&") and b["in_t"][0].endswith("str") and "nom::" in b.get("out_t", "") or \
                (b.get("in_t") and b["in_t"][0].endswith("str") and b.get("out_t", "").startswith("std::result::Result<(&") and "nom" in b.get("out_t", "")):
            return True
        return False
    if all(takes_cursor(P.fn(f)) for f in comp):
        return "consuming", "every member advances a parser cursor (%s)" % ", ".join(sorted({t for f in comp for t in P.fn(f)["in_t"] if "ByteIterator" in t or t.endswith("str")}))
    # bounded: every member carries a depth parameter that is forwarded unchanged or incremented on every
    # intra-cycle edge, some member rejects depths beyond a constant, and every cycle contains an increment
    b_ok, b_detail = _bounded(P, comp, cg)
    if b_ok:
        return "bounded", b_detail
    # structural: every intra-SCC edge passes a strict sub-value of a parameter as receiver / first argument
    bad = []
    for f in comp:
        b = P.fn(f)
        params, sub, rooted = descent_roots(b)
        for t, nodes in cg[f].items():
            if t not in members:
                continue
            for n in nodes:
                k = n.get("k")
                if k == "mcall":
                    cand = [n["recv"]] + list(n["a"])
                elif k == "call":
                    cand = list(n["a"])
                elif k == "path":
                    # fn item passed as a value: accept when used inside an adapter chain rooted at a sub-value
                    cand = None
                    for x, parents, _ in ir.walk(b["body"]):
                        if x is n:
                            for p in reversed(parents):
                                if p.get("k") == "mcall" and (p.get("q") or "").startswith(STD_DESCENT_OK):
                                    cand = [p["recv"]]
                                    break
                    cand = cand or []
                else:
                    cand = []
                okd = False
                for c in cand[:2]:
                    okr, st = rooted(c, True)
                    if okr:
                        okd = True
                        break
                if not okd:
                    bad.append((f, t, ir.loc(n), ir.place_str(cand[0]) if cand else "?"))
    if not bad:
        return "structural", "every recursive call descends into a field/element of a parameter (owned, hence finite)"
    return "unclassified", bad


def rules(ck, P):
    E = entries(P)
    ck.anchor("R-PANIC", "decoder entry points", E, 30)
    table = census.load_table("panic_sites.json")
    # validate witnesses lazily inside a wrapper table
    seen = P.reachable(E)
    stats = {"auto": 0, "reviewed": 0, "violation": 0}
    n_sites = 0
    used = set()
    for fq in sorted(seen):
        b = P.fn(fq)
        if b is None:
            continue
        for s in census.collect_sites(P, b):
            n_sites += 1
            why = census.auto_discharge(s)
            if why:
                stats["auto"] += 1
                ck.ok("R-PANIC", s.key, "auto: " + why, s.loc)
                continue
            e = table.get(s.key)
            if e is not None:
                lapsed = validate_witness(P, e, s) or census.entry_lapsed(e, s)
                if lapsed is None:
                    used.add(s.key)
                    stats["reviewed"] += 1
                    ck.ok("R-PANIC", s.key, "reviewed: " + e["reason"], s.loc)
                    continue
                note = " (reviewed entry lapsed: %s)" % lapsed
            else:
                note = ""
            stats["violation"] += 1
            chain = P.chain(seen, fq)
            ck.violation("R-PANIC", s.key, "panic-capable %s site `%s` depends on decoder input; reachable via %s%s" % (
                s.kind, s.desc, " -> ".join(c.rsplit("::", 1)[-1] if not c.startswith("<") else c.split(">::")[-1] + "@" + c.split(" as ")[0].rsplit("::", 1)[-1] for c in chain[-5:]), note), s.loc)
    ck.anchor("R-PANIC", "census size", n_sites, 120)
    ck.anchor("R-PANIC", "reachable bodies", len(seen), 500)
    ck.note("R-PANIC: %d reachable bodies, %d sites: %s; %d table entries unused" % (len(seen), n_sites, stats, len(set(table) - used)))

    # ---- R-ALLOC / R-ARITH
    dtable = census.load_table("decode_sites.json")
    pt = census.param_taint_fixpoint(P, sorted(seen))
    nd = 0
    for fq in sorted(seen):
        b = P.fn(fq)
        if b is None:
            continue
        for s in census.collect_decode_sites(P, b, pt.get(fq, ())):
            nd += 1
            rule = "R-ALLOC" if s.kind == "alloc" else "R-ARITH"
            e = dtable.get(s.key)
            note = ""
            if e is not None:
                lapsed = validate_witness(P, e, s) or census.entry_lapsed(e, s)
                if lapsed is None:
                    ck.ok(rule, s.key, "reviewed: " + e["reason"], s.loc)
                    continue
                note = " (reviewed entry lapsed: %s)" % lapsed
            if s.kind == "alloc":
                ck.violation(rule, s.key, "allocation `%s` is sized by a length decoded from the input without a dominating bound against the remaining input: "
                             "a few bytes can request an arbitrarily large allocation (abort)%s" % (s.desc, note), s.loc)
            else:
                ck.violation(rule, s.key, "`%s` on integers decoded from the input with no dominating bound and no checked/saturating op: overflow panics "
                             "(overflow-checks on) or wraps into an inconsistent range%s" % (s.desc, note), s.loc)
    ck.note("R-ALLOC/R-ARITH: %d decoded-value sites examined" % nd)

    # ---- R-ALLOC|loop: a loop that runs a DECODED number of times may only grow a collection on paths that also consume input.
    # `for _ in 0..count { x = reader.read()?; v.push(x) }` ends with a read error when the input runs out, so memory stays
    # proportional to the input; a path through the body that pushes without reading (a command without parameters, a default
    # entry) lets a ten-byte count of 2^61 allocate without bound.
    from . import mvt as _mvt
    n_loops = 0
    for fq in sorted(seen):
        b = P.fn(fq)
        if b is None:
            continue
        lets = {y["pat"]["hid"]: y["init"] for y in ir.walk_nodes(b["body"]) if y.get("k") == "let" and "init" in y and y["pat"].get("k") == "bind"}

        def decoded(e, depth=0):
            e = ir.strip(e)
            if depth > 4:
                return False
            if ir.contains(e, lambda z: z.get("k") == "mcall" and (z.get("name") or "").startswith("read_") and "io::value_reader" in (z.get("q") or "")):
                return True
            return any(decoded(lets[z["hid"]], depth + 1) for z in ir.walk_nodes(e) if z.get("k") == "path" and z.get("r") == "local" and z.get("hid") in lets)
        for n in ir.walk_nodes(b["body"]):
            if n.get("k") != "for":
                continue
            it = ir.strip(n["iter"])
            if not (it.get("k") == "struct" and "Range" in (it.get("q") or "")):
                continue
            ends = [f["e"] for f in it.get("fields", ()) if f.get("name") == "end"]
            if not ends or not decoded(ends[0]):
                continue
            n_loops += 1
            is_read = lambda y: y.get("k") == "mcall" and (y.get("name") or "").startswith(("read_", "get_pbf_sub_reader", "get_sub_reader")) and "io::value_reader" in (y.get("q") or "")
            is_grow = lambda y: y.get("k") == "mcall" and y.get("name") in ("push", "push_back", "extend", "extend_from_slice", "insert", "push_str") and (y.get("q") or "").startswith(("alloc::", "std::collections"))
            cnt = _mvt.exit_counts(P, {"body": n["body"]}, lambda y: 1000 if is_grow(y) else (1 if is_read(y) else None))
            bad = sorted(t for t in cnt if t >= 1000 and t % 1000 == 0)
            ck.check(not bad, "R-ALLOC", "%s|loop|%s" % (fq, ir.place_str(ends[0]) or "count"), "the loop over a decoded count grows a collection only on paths that also read from the input",
                     "a loop that runs a decoded number of times (`%s`) has a path that grows a collection without consuming input: memory is not bounded by the input size (a few bytes request up to 2^61 entries)" %
                     (ir.place_str(ends[0]) or "count"), ir.loc(n))
    ck.anchor("R-ALLOC", "loops over a decoded count", n_loops, 1)

    # ---- R-REC
    rtable = {tuple(e["members"]): e for e in census.load_table("recursion.json").values()} if False else _load_rec()
    cg = pruned_callgraph(P, set(seen))
    comps = sccs({f: set(e) for f, e in cg.items()})
    ck.anchor("R-REC", "recursive cycles examined", comps, 5)
    for comp in comps:
        key = "scc|" + "+".join(c.split("::")[-1] if not c.startswith("<") else c.split(">::")[-1] + "@" + c.split(" as ")[0].rsplit("::", 1)[-1] for c in comp)
        cls, detail = classify_scc(P, comp, cg)
        if cls != "unclassified":
            ck.ok("R-REC", key, "%s: %s" % (cls, detail), ir.loc(P.fn(comp[0])))
            continue
        e = rtable.get(tuple(comp))
        if e is not None:
            ck.ok("R-REC", key, "reviewed: " + e["reason"], ir.loc(P.fn(comp[0])))
            continue
        f, t, loc_, what = detail[0]
        ck.violation("R-REC", key, "recursive cycle %s has no progress measure: the call at %s passes `%s`, which is neither a sub-value of a parameter, "
                     "nor guarded by a depth bound, nor made under a consumed parser cursor — crafted input that refers to itself recurses until the stack overflows (abort)"
                     % ([c.rsplit("::", 1)[-1] for c in comp], loc_, what), loc_)


def _load_rec():
    import json
    import os
    p = os.path.join(os.path.dirname(os.path.dirname(os.path.dirname(os.path.abspath(__file__)))), "tables", "recursion.json")
    if not os.path.exists(p):
        return {}
    with open(p) as fh:
        return {tuple(sorted(e["members"])): e for e in json.load(fh)["cycles"]}


def mutants(P):
    from .report import m_drop_stmt, m_replace
    out = []

    def drop_len_guard(body):
        return m_drop_stmt(body, lambda n: n.get("k") == "call" and n.get("q") == "anyhow::__private::not")
    out.append(("HeaderV3::deserialize: length guard removed", "versatiles_container::container::pmtiles::types::header_v3::HeaderV3::deserialize", drop_len_guard))
    out.append(("VPLNode array accessor: length guard removed", "versatiles_pipeline::vpl::vpl_node::VPLNode::get_property_number_array4", drop_len_guard))

    def add_unwrap(body):
        # `?` replaced by unwrap on the first fallible read
        def fn(n):
            inner = n["e"]
            n.clear()
            n.update({"k": "mcall", "name": "unwrap", "q": "core::result::Result::unwrap", "recv": inner, "a": [], "t": "u8", "s": inner.get("s")})
        return m_replace(body, lambda n: n.get("k") == "try", fn)
    out.append(("FileHeader::from_blob: `?` replaced by unwrap", "versatiles_container::container::versatiles::types::file_header::FileHeader::from_blob", add_unwrap))

    def unbound_depth(body):
        # tessellate_cubic: the depth comparison disappears
        return m_replace(body, lambda n: n.get("k") == "bin" and n.get("op") in ("<", "<=", ">", ">=") and ir.contains(n, lambda y: y.get("k") == "path" and y.get("dk", "").startswith("Const")),
                         lambda n: n.update({"k": "lit", "lk": "bool", "v": True}))
    out.append(("tessellate_cubic: depth bound removed", "versatiles_pipeline::operations::read::from_debug::vector::draw_cubic::tessellate_cubic", unbound_depth))
    return out
