"""A small abstract domain of polynomial terms over symbolic atoms, used to decide arithmetic *shape* rules
(offset bases, slice bounds, partition steps) without evaluating anything on concrete numbers.

A term is a canonical polynomial  {monomial: coefficient}  where a monomial is a sorted tuple of atoms and the empty
monomial carries the constant.  Atoms are hashable tuples:
    ("sym", key)                   a local that is not re-defined (key = hid) or a place string such as `self.range.offset`
    ("min", t1, t2) / ("max", ..)  with frozen sub-terms, arguments sorted
    ("div", t, c) / ("shr", t, c)  integer division / shift by a constant
    ("len", t)                     length of a container place
    ("fn", name, t...)             an uninterpreted pure function of its arguments (method or function call)
    ("opq", id)                    anything else (each occurrence distinct)
Terms are compared by structural equality of their canonical forms; TOP (None) means unknown.
`run()` walks straight-line statements (let / assign / += / the clamp idiom `if a > b { x = b }`) keeping one term per
local; any other assignment under control flow sends the local to TOP.  This is a flow-sensitive, path-insensitive
dataflow analysis: nothing is executed.
"""
from . import ir

TOP = None


def const(c):
    return {(): c} if c else {}


def sym(key):
    return {(("sym", key),): 1}


def atom(a):
    return {(a,): 1}


def freeze(t):
    if t is TOP:
        return ("TOP",)
    return tuple(sorted(((m, c) for m, c in t.items() if c != 0), key=repr))


def eq(a, b):
    return a is not TOP and b is not TOP and freeze(a) == freeze(b)


def add(a, b, sign=1):
    if a is TOP or b is TOP:
        return TOP
    out = dict(a)
    for m, c in b.items():
        out[m] = out.get(m, 0) + sign * c
        if out[m] == 0:
            del out[m]
    return out


def sub(a, b):
    return add(a, b, -1)


def mul(a, b):
    if a is TOP or b is TOP:
        return TOP
    out = {}
    for m1, c1 in a.items():
        for m2, c2 in b.items():
            m = tuple(sorted(m1 + m2, key=repr))
            out[m] = out.get(m, 0) + c1 * c2
            if out[m] == 0:
                del out[m]
    return out


def as_const(t):
    if t is TOP:
        return None
    if not t:
        return 0
    if list(t.keys()) == [()]:
        return t[()]
    return None


def tmin(a, b):
    if a is TOP or b is TOP:
        return TOP
    if eq(a, b):
        return a
    fa, fb = sorted([freeze(a), freeze(b)], key=repr)
    return atom(("min", fa, fb))


def tmax(a, b):
    if a is TOP or b is TOP:
        return TOP
    if eq(a, b):
        return a
    fa, fb = sorted([freeze(a), freeze(b)], key=repr)
    return atom(("max", fa, fb))


_opq = [0]


def opaque():
    _opq[0] += 1
    return atom(("opq", _opq[0]))


def show(t):
    if t is TOP:
        return "?"
    if not t:
        return "0"
    parts = []
    for m, c in sorted(t.items(), key=repr):
        ms = "*".join(_show_atom(a) for a in m)
        if not m:
            parts.append(str(c))
        elif c == 1:
            parts.append(ms)
        elif c == -1:
            parts.append("-" + ms)
        else:
            parts.append("%d*%s" % (c, ms))
    return " + ".join(parts).replace("+ -", "- ")


def _show_place(p):
    if isinstance(p, str):
        return p
    if isinstance(p, tuple) and len(p) == 2 and isinstance(p[0], int):
        return str(p[1])
    if isinstance(p, tuple) and len(p) == 2 and isinstance(p[1], str) and p[1][:1] in (".", "["):
        return _show_place(p[0]) + p[1]
    try:
        return show(dict(p))
    except (TypeError, ValueError):
        return repr(p)


def _show_atom(a):
    if a[0] == "sym":
        return _show_place(a[1])
    if a[0] in ("min", "max"):
        return "%s(%s, %s)" % (a[0], show(dict(a[1])) if a[1] != ("TOP",) else "?", show(dict(a[2])) if a[2] != ("TOP",) else "?")
    if a[0] in ("div", "shr"):
        return "(%s %s %s)" % (show(dict(a[1])), "/" if a[0] == "div" else ">>", a[2])
    if a[0] == "len":
        return "len(%s)" % _show_place(a[1])
    if a[0] == "fn":
        return "%s(%s)" % (a[1], ", ".join(_show_place(x) for x in a[2:]))
    return "<%s>" % (a[1],)


class Env:
    """hid -> term; locals without an entry evaluate to their own symbol ("sym", (hid, name))"""

    def __init__(self, init=None, place_syms=True):
        self.m = dict(init or {})
        self.place_syms = place_syms

    def copy(self):
        e = Env(self.m, self.place_syms)
        return e

    def local(self, n):
        h = n["hid"]
        if h in self.m:
            return self.m[h]
        return sym((h, n["name"]))


def local_sym(bind):
    """the symbol of a pattern binding / local path node"""
    return sym((bind["hid"], bind["name"]))


def ev(e, env):
    """term of expression e"""
    e = ir.unparen(ir.strip(e)) if e is not None else None
    if e is None:
        return TOP
    k = e.get("k")
    if k == "lit":
        if e.get("lk") == "int":
            return const(e["v"])
        return opaque()
    if k == "path":
        if e.get("r") == "local":
            return env.local(e)
        c = ir.const_eval(e, {})
        if c is not None:
            return const(c)
        return sym(e.get("q") or "?")
    if k == "cast":
        return ev(e["e"], env)
    if k in ("try", "await"):
        return ev(e["e"], env)
    if k == "field":
        base = ev_place(e, env)
        return sym(base) if base is not None else opaque()
    if k == "bin":
        op = e["op"]
        a, b = ev(e["l"], env), ev(e["r"], env)
        if op == "+":
            return add(a, b)
        if op == "-":
            return sub(a, b)
        if op == "*":
            return mul(a, b)
        cb = as_const(b)
        if op == "<<" and cb is not None:
            return mul(a, const(1 << cb))
        if op in ("/", ">>") and cb is not None and a is not TOP:
            ca = as_const(a)
            if ca is not None:
                return const(ca // cb if op == "/" else ca >> cb)
            return atom(("div" if op == "/" else "shr", freeze(a), cb))
        if op in ("<<", ">>") and a is not TOP and b is not TOP:
            return atom(("fn", "shl" if op == "<<" else "shr", freeze(a), freeze(b)))
        return opaque()
    if k == "mcall":
        nm = e.get("name")
        args = e.get("a", [])
        if nm in ("min", "max") and len(args) == 1:
            a, b = ev(e["recv"], env), ev(args[0], env)
            return tmin(a, b) if nm == "min" else tmax(a, b)
        if nm in ("add", "sub", "mul", "wrapping_add", "wrapping_sub", "checked_add", "checked_sub", "saturating_add") and len(args) == 1:
            a, b = ev(e["recv"], env), ev(args[0], env)
            return add(a, b) if "add" in nm else (sub(a, b) if "sub" in nm else mul(a, b))
        if nm in ("shr", "shl", "div") and len(args) == 1:
            a, b = ev(e["recv"], env), ev(args[0], env)
            cb = as_const(b)
            if cb is not None and a is not TOP:
                if nm == "shl":
                    return mul(a, const(1 << cb))
                return atom(("div" if nm == "div" else "shr", freeze(a), cb))
            if a is not TOP and b is not TOP:
                return atom(("fn", nm, freeze(a), freeze(b)))
            return opaque()
        if nm in ("clone", "to_owned", "into", "unwrap", "expect", "as_ref", "borrow", "ok_or_else", "ok_or", "context", "with_context", "unwrap_or_default") and len(args) <= 1:
            return ev(e["recv"], env)
        if nm == "len" and not args:
            p = ev_place(e["recv"], env)
            return atom(("len", p if p is not None else freeze(ev(e["recv"], env))))
        # uninterpreted pure accessor
        p = ev_place(e, env)
        if p is not None:
            return sym(p)
        return atom(("fn", nm) + tuple(freeze(ev(a, env)) for a in [e["recv"]] + list(args)))
    if k == "call":
        q = (e.get("q") or "?")
        if q.endswith(("::from", "::into", "Some::{Ctor#0}", "Ok::{Ctor#0}")) and len(e.get("a", ())) == 1:
            return ev(e["a"][0], env)
        if q.endswith(("cmp::min", "cmp::max")) and len(e.get("a", ())) == 2:
            a, b = ev(e["a"][0], env), ev(e["a"][1], env)
            return tmin(a, b) if q.endswith("min") else tmax(a, b)
        return atom(("fn", q.rsplit("::", 1)[-1]) + tuple(freeze(ev(a, env)) for a in e.get("a", ())))
    if k == "block":
        env2 = env.copy()
        run(e.get("stmts", []), env2)
        return ev(e.get("tail"), env2) if "tail" in e else TOP
    if k == "if" and "else" in e:
        c = ir.cmp_norm(e["c"])
        a, b = ev(e["then"], env), ev(e["else"], env)
        if eq(a, b):
            return a
        cl = _cmp_terms(e["c"], env)
        if cl is not None:
            l, op, r = cl
            # if l > r { r } else { l }  == min(l, r)
            if op in (">", ">=") and eq(a, r) and eq(b, l) or op in ("<", "<=") and eq(a, l) and eq(b, r):
                return tmin(l, r)
            if op in ("<", "<=") and eq(a, r) and eq(b, l) or op in (">", ">=") and eq(a, l) and eq(b, r):
                return tmax(l, r)
        return opaque()
    return opaque()


def ev_place(e, env):
    """a stable place string for field / accessor chains rooted in a local that has no term (e.g. `range.offset`)"""
    e = ir.strip(e)
    if e is None:
        return None
    k = e.get("k")
    if k == "path" and e.get("r") == "local":
        if e["hid"] in env.m:
            t = env.m[e["hid"]]
            if t is not TOP and len(t) == 1:
                (m, c), = t.items()
                if c == 1 and len(m) == 1 and m[0][0] == "sym":
                    return m[0][1]
            return None
        return (e["hid"], e["name"])
    if k == "field":
        b = ev_place(e["e"], env)
        return None if b is None else (b, "." + e["name"])
    if k == "index":
        b = ev_place(e["e"], env)
        i = ev(e["i"], env)
        return None if b is None else (b, "[%s]" % (freeze(i),))
    if k == "mcall" and not e.get("a"):
        if e["name"] in ("clone", "to_owned", "as_ref", "borrow", "unwrap"):
            return ev_place(e["recv"], env)
        b = ev_place(e["recv"], env)
        return None if b is None else (b, "." + e["name"] + "()")
    if k in ("try", "await", "cast"):
        return ev_place(e["e"], env)
    return None


def _cmp_terms(c, env):
    c = ir.unparen(c)
    neg = False
    while c is not None and c.get("k") == "un" and c.get("op") == "!":
        c = ir.unparen(c["e"])
        neg = not neg
    if c is None or c.get("k") != "bin" or c.get("op") not in ("<", "<=", ">", ">=", "==", "!="):
        return None
    op = c["op"]
    if neg:
        op = {"<": ">=", "<=": ">", ">": "<=", ">=": "<", "==": "!=", "!=": "=="}[op]
    return ev(c["l"], env), op, ev(c["r"], env)


def run(stmts, env, stop=None):
    """abstractly execute statements in order; `stop(node)` ends the walk (returns True when reached)"""
    for st in stmts:
        if stop is not None and stop(st):
            return True
        x = st["e"] if st.get("k") == "semi" else st
        x = ir.unparen(x)
        k = x.get("k")
        if k == "let":
            if "init" in x and x["pat"].get("k") == "bind":
                env.m[x["pat"]["hid"]] = ev(x["init"], env)
            else:
                for b in ir.pat_binds(x["pat"]):
                    env.m.pop(b["hid"], None)
        elif k == "assign":
            h = ir.local_hid(x["l"]) if x["l"].get("k") == "path" else None
            if h is not None:
                env.m[h] = ev(x["r"], env)
        elif k == "assignop":
            h = ir.local_hid(x["l"]) if x["l"].get("k") == "path" else None
            if h is not None:
                cur = env.local(ir.strip(x["l"]))
                r = ev(x["r"], env)
                op = x.get("op", "")
                env.m[h] = add(cur, r) if op.startswith("+") else (sub(cur, r) if op.startswith("-") else (mul(cur, r) if op.startswith("*") else opaque()))
        elif k == "if":
            _run_if(x, env)
        elif k == "block":
            run(ir.stmts_of(x), env, stop)
        else:
            _havoc_assigned(x, env)
    return False


def _assigned(n):
    out = set()
    for y in ir.walk_nodes(n):
        if y.get("k") in ("assign", "assignop") and y["l"].get("k") == "path":
            h = ir.local_hid(y["l"])
            if h is not None:
                out.add(h)
    return out


def _havoc_assigned(n, env):
    for h in _assigned(n):
        env.m[h] = opaque()


def _run_if(x, env):
    """clamp idiom: `if A > B { v = B }` with v == A  =>  v = min(A, B)   (and the symmetric max form)"""
    cl = _cmp_terms(x["c"], env)
    th = ir.stmts_of(x["then"]) if x["then"].get("k") == "block" else [x["then"]]
    if cl is not None and "else" not in x and len(th) == 1:
        a = th[0]["e"] if th[0].get("k") == "semi" else th[0]
        if a.get("k") == "assign" and a["l"].get("k") == "path" and ir.local_hid(a["l"]) is not None:
            h = ir.local_hid(a["l"])
            cur = env.local(ir.strip(a["l"]))
            new = ev(a["r"], env)
            l, op, r = cl
            if op in (">", ">=") and eq(cur, l) and eq(new, r) or op in ("<", "<=") and eq(cur, r) and eq(new, l):
                env.m[h] = tmin(l, r)
                return
            if op in ("<", "<=") and eq(cur, l) and eq(new, r) or op in (">", ">=") and eq(cur, r) and eq(new, l):
                env.m[h] = tmax(l, r)
                return
    _havoc_assigned(x, env)


def show_stable(t, name=lambda hid, nm: nm):
    """rendering that does not depend on HIR ids or on the order in which monomials were created: atoms and monomials are
    rendered first and sorted as strings; opaque atoms all read `<?>`; `name(hid, nm)` renders a local"""
    if t is TOP:
        return "?"
    if not t:
        return "0"

    def place(p):
        if isinstance(p, str):
            return p
        if isinstance(p, tuple) and len(p) == 2 and isinstance(p[0], int):
            return name(p[0], str(p[1]))
        if isinstance(p, tuple) and len(p) == 2 and isinstance(p[1], str) and p[1][:1] in (".", "["):
            return place(p[0]) + p[1]
        try:
            return show_stable(dict(p), name)
        except (TypeError, ValueError):
            return "<?>"

    def atom_s(a):
        k = a[0]
        if k == "sym":
            return place(a[1])
        if k in ("min", "max"):
            xs = sorted(show_stable(dict(x), name) if x != ("TOP",) else "?" for x in a[1:3])
            return "%s(%s, %s)" % (k, xs[0], xs[1])
        if k in ("div", "shr"):
            return "(%s %s %s)" % (show_stable(dict(a[1]), name), "/" if k == "div" else ">>", a[2])
        if k == "len":
            return "len(%s)" % place(a[1])
        if k == "fn":
            return "%s(%s)" % (a[1], ", ".join(place(x) for x in a[2:]))
        return "<?>"
    parts = []
    for m, c in t.items():
        if c == 0:
            continue
        ms = "*".join(sorted(atom_s(a) for a in m))
        parts.append(str(c) if not m else (ms if c == 1 else "%d*%s" % (c, ms)))
    return " + ".join(sorted(parts))
