"""C14 — parallel stream transformations keep every tile paired with its own result.

For every TileStream operator that spawns one task per item (anchored semantically: methods of TileStream whose
closures call tokio::spawn):
P1 pairing by dataflow   the task's output tuple is (the item's own coordinate binding, callback(item's own binding))
P2 isolation             the spawning closure captures only the Arc of the callback; the spawned future captures only
                         the item's bindings and the per-item Arc clone: no &mut, no shared collection, no counter
P3 conservation          the adapter chain uses only 1:1 / None-dropping adapters; closures after the spawn have no
                         captures and re-emit the coordinate bound from the task result; None only for a None result
P4 for_each_buffered     every pulled item is pushed unconditionally; the callback gets the buffer when full and once
                         after the loop when non-empty; the buffer is replaced after being moved
"""
from . import ir
from .report import m_drop_stmt, m_replace

META = {
    "level": "other",
    "explanation": (
        "Proof-shaped argument over all completion orders: each output is a pure function of exactly one input item. "
        "Decided from the type-checked closures: (P1) the spawned future returns a tuple whose first component is the "
        "coordinate binding of the item it was created for and whose second is the user callback applied to that item's own "
        "binding; (P2) capture lists from rustc's closure analysis contain only the Arc'd callback (outer closure) and the "
        "item's bindings plus the per-item Arc clone (future) — no mutable or shared state through which tasks could exchange "
        "data; (P3) the adapters between source and `boxed()` are map/then/buffered/buffer_unordered/filter_map/flatten only, "
        "post-spawn closures capture nothing, never build a coordinate, and drop an item only for a None result (or JoinError "
        "in the generator); (P4) for_each_buffered pushes every pulled item and flushes full and final buffers. Hence the "
        "multiset of (coordinate, result) pairs is independent of scheduling. (Claimed as `proof` for most of the session; lowered to `other` after the seeded changes C14e and C14f showed obligations missing from the list - the plain consumers and constructors; P5 and P6 were added. The argument is proof-shaped for the operators it lists, not a proof for the type.)"),
    "not_decided": "that futures' adapters and tokio::spawn deliver each future's output exactly once (trusted); panics inside user callbacks (map_blob_parallel propagates them by expect).",
    "trusted_base": ["futures-util stream adapters", "tokio::spawn/JoinHandle", "rustc closure capture analysis"],
}

ADAPTERS_OK = {"map", "then", "buffered", "buffer_unordered", "filter_map", "flatten", "boxed", "filter_map_ok"}
ADAPTERS_BAD = {"zip", "take", "skip", "skip_while", "take_while", "step_by", "chunks", "ready_chunks", "dedup", "peekable", "scan", "fuse", "chain", "take_until"}
SHARED_WORDS = ("Mutex<", "RwLock<", "Atomic", "Cell<", "RefCell<", "Vec<", "HashMap<", "&mut ", "VecDeque<", "mpsc::", "Sender<", "Receiver<")


def spawn_calls(n):
    return [x for x in ir.walk_nodes(n) if x.get("k") == "call" and (x.get("q") or "").startswith("tokio::task::spawn")]


def closure_defs(clo):
    """hids bound inside the closure (params + lets + patterns), excluding nested closures' own"""
    out = set()
    for p in clo.get("params", ()):
        for b in ir.pat_binds(p):
            out.add(b["hid"])
    for n in ir.walk_nodes(clo["body"]):
        if n.get("k") in ("let", "letx"):
            for b in ir.pat_binds(n["pat"]):
                out.add(b["hid"])
        if n.get("k") == "match":
            for a in n["arms"]:
                for b in ir.pat_binds(a["pat"]):
                    out.add(b["hid"])
        if n.get("k") == "closure" and n is not clo:
            for p in n.get("params", ()):
                for b in ir.pat_binds(p):
                    out.add(b["hid"])
    return out


def rules(ck, P):
    ts = [b for b in P.bodies if b.get("self_adt", "").endswith("::tile_stream::TileStream") and b["dk"] == "AssocFn"]
    if not ck.anchor("C14", "TileStream methods", ts, 15):
        return
    par = [b for b in ts if spawn_calls(b["body"])]
    parq0 = {b["q"] for b in par}
    deleg = [b for b in ts if b["q"] not in parq0 and any(n.get("k") in ("mcall", "call") and n.get("q") in parq0 for n in ir.walk_nodes(b["body"]))]
    ck.anchor("C14", "parallel operators (spawning or delegating to one that spawns)", par + deleg, 3)
    ck.anchor("C14", "task-spawning operators", par, 1)
    for b in par:
        fq = b["q"]
        # the chain expression: outermost adapter mcall that contains the spawn
        chain_root = None
        for n in ir.walk_nodes(b["body"]):
            if n.get("k") == "mcall" and "StreamExt::" in (n.get("q") or "") and spawn_calls(n):
                chain_root = n
                break
        if chain_root is None:
            ck.violation("P3", fq + "|chain", "no stream adapter chain found around the spawn")
            continue
        chain = []
        x = chain_root
        while x is not None and x.get("k") == "mcall":
            chain.append(x)
            x = x["recv"]
        chain.reverse()
        source = x
        names = [c["name"] for c in chain]
        # later adapters applied to the let-bound stream (e.g. `s.boxed()`)
        bad = [nm for nm in names if nm in ADAPTERS_BAD or nm not in ADAPTERS_OK]
        ck.check(not bad, "P3", fq + "|adapters", "adapter chain %s uses only 1:1 / None-dropping adapters" % names,
                 "adapter chain %s contains %s, which pairs, drops or regroups items by position" % (names, bad), ir.loc(chain_root))
        # locate the spawning closure: argument of a `map`
        spawn_idx = None
        for i, c in enumerate(chain):
            if c["a"] and c["a"][0].get("k") == "closure" and spawn_calls(c["a"][0]):
                spawn_idx = i
        if spawn_idx is None:
            ck.violation("P1", fq + "|spawn-closure", "spawn is not inside an adapter closure")
            continue
        clo = chain[spawn_idx]["a"][0]
        ck.check(chain[spawn_idx]["name"] in ("map", "then"), "P3", fq + "|spawn-adapter", "tasks are created by a 1:1 `%s`" % chain[spawn_idx]["name"],
                 "tasks are created inside `%s`" % chain[spawn_idx]["name"], ir.loc(clo))
        item_binds = [x for p in clo["params"] for x in ir.pat_binds(p)]
        item_hids = {x["hid"] for x in item_binds}
        coords = [x for x in item_binds if x["t"].endswith("TileCoord3")]
        if not ck.check(len(coords) == 1, "P1", fq + "|item-coord", "the item pattern binds exactly one coordinate", "item pattern binds %d coordinates" % len(coords), ir.loc(clo)):
            continue
        chid = coords[0]["hid"]
        # P2 outer closure captures
        outer_caps = clo.get("caps", [])
        cap_ok = all(c["t"].startswith("std::sync::Arc<") and not any(w in c["t"] for w in SHARED_WORDS) for c in outer_caps)
        ck.check(cap_ok and len(outer_caps) == 1, "P2", fq + "|outer-captures", "spawning closure captures only the Arc'd callback (%s)" % [c["t"] for c in outer_caps],
                 "spawning closure captures %s: state shared between items" % [(c["var"], c["t"], c["by"]) for c in outer_caps], ir.loc(clo))
        arc_hid = outer_caps[0]["hid"] if outer_caps else None
        # per-item clones of the Arc
        clones = set()
        for n in ir.walk_nodes(clo["body"]):
            if n.get("k") == "let" and "init" in n:
                i = n["init"]
                if i.get("k") in ("call", "mcall") and (i.get("q") or "").endswith("Clone::clone"):
                    src = i["a"][0] if i.get("k") == "call" else i["recv"]
                    if ir.local_hid(src) == arc_hid:
                        for bb in ir.pat_binds(n["pat"]):
                            clones.add(bb["hid"])
        sp = spawn_calls(clo["body"])
        ck.check(len(sp) == 1, "P1", fq + "|one-spawn", "exactly one task per item", "%d spawn calls per item" % len(sp), ir.loc(clo))
        fut = sp[0]["a"][0] if sp and sp[0]["a"] else None
        if fut is None or fut.get("k") != "closure":
            ck.violation("P1", fq + "|future", "spawned future is not an inline async block", ir.loc(clo))
            continue
        fcaps = fut.get("caps", [])
        bad_caps = [(c["var"], c["t"]) for c in fcaps if not (c["hid"] in item_hids or c["hid"] in clones) or any(w in c["t"] for w in SHARED_WORDS if w != "Vec<")]
        ck.check(not bad_caps and all(c["by"] == "ByValue" for c in fcaps), "P2", fq + "|future-captures",
                 "spawned future owns only the item's bindings and its own Arc clone (%s)" % [c["var"] for c in fcaps],
                 "spawned future captures %s (by %s): tasks share state, so a result can depend on another item or on timing" % (bad_caps or [c["var"] for c in fcaps], [c["by"] for c in fcaps]), ir.loc(fut))
        # P1 output tuple
        tail = ir.unparen(fut["body"])
        while tail is not None and tail.get("k") == "block":
            tail = tail.get("tail")
        ok1 = False
        why = "future does not end in a (coordinate, result) tuple"
        if tail is not None and tail.get("k") == "tup" and len(tail["es"]) == 2:
            c0, c1 = tail["es"]
            if ir.local_hid(c0) == chid and c0.get("k") == "path":
                if c1.get("k") == "call" and "f" in c1 and ir.local_hid(c1["f"]) in clones:
                    args_ok = all(ir.local_hid(a) in item_hids for a in c1["a"]) and len(c1["a"]) == 1
                    ok1 = args_ok
                    why = "callback is not applied to the item's own binding"
                else:
                    why = "second component is not the user callback applied through the per-item Arc clone"
            else:
                why = "first component is not the item's own coordinate binding"
        ck.check(ok1, "P1", fq + "|output", "task returns (item.coord, callback(item's own value))", why, ir.loc(fut))
        # no mutation of the coordinate inside the future / closure
        mut = [n for n in ir.walk_nodes(clo["body"]) if n.get("k") in ("assign", "assignop") and ir.local_hid(n["l"]) == chid]
        mut += [n for n in ir.walk_nodes(clo["body"]) if n.get("k") == "mcall" and ir.local_hid(n["recv"]) == chid and n["recv"].get("ta", "").startswith("&mut")]
        ck.check(not mut, "P1", fq + "|coord-immutable", "the coordinate is not modified between input and output", "the coordinate is modified inside the task", ir.loc(clo))
        # P3 post-spawn closures
        for c in chain[spawn_idx + 1:]:
            if not c["a"] or c["a"][0].get("k") != "closure":
                continue
            pc = c["a"][0]
            key = "%s|post:%s" % (fq, c["name"])
            allcaps = list(pc.get("caps", []))
            for inner in ir.walk_nodes(pc["body"]):
                if inner.get("k") == "closure":
                    defs = closure_defs(pc)
                    allcaps += [cc for cc in inner.get("caps", []) if cc["hid"] not in defs]
            ck.check(not allcaps, "P3", key + "|captures", "post-spawn `%s` closure captures nothing" % c["name"],
                     "post-spawn `%s` closure captures %s" % (c["name"], [(x["var"], x["t"]) for x in allcaps]), ir.loc(pc))
            mk = [n for n in ir.walk_nodes(pc["body"]) if (n.get("k") in ("call", "struct") and n.get("t", "").endswith("TileCoord3") and n.get("k") != "path")]
            ck.check(not mk, "P3", key + "|no-new-coord", "no coordinate is constructed after the task", "a coordinate is constructed after the task", ir.loc(pc))
            if c["name"] == "filter_map":
                ck.check(_none_only_for_none(pc), "P3", key + "|drops-only-none",
                         "an item is dropped only when its own result is None (or its task failed)",
                         "filter_map closure can drop an item whose callback returned Some", ir.loc(pc))
    # ---- P5: operators that delegate to a task-spawning operator instead of spawning themselves
    parq = {b["q"] for b in par}
    LOSSY = ("::unwrap_or_default", "::unwrap_or", "::unwrap_or_else", "Result::ok", "Option::flatten", "::is_some", "::is_ok")
    for b in ts:
        if b["q"] in parq:
            continue
        dele = [n for n in ir.walk_nodes(b["body"]) if n.get("k") in ("mcall", "call") and n.get("q") in parq]
        if not dele:
            continue
        fq = b["q"]
        ads = [n for n in ir.walk_nodes(b["body"]) if n.get("k") == "mcall" and "StreamExt::" in (n.get("q") or "")]
        bad = [n["name"] for n in ads if n["name"] not in ADAPTERS_OK]
        ck.check(not bad, "P3", fq + "|delegate-adapters", "operator delegating to %s adds only 1:1 / None-dropping adapters %s" % ([d["name"] for d in dele], [n["name"] for n in ads]),
                 "operator delegates to %s and then applies %s: items are dropped or regrouped by a data-dependent test instead of by their own task's None result" % ([d["name"] for d in dele], bad), ir.loc(b))
        for d in dele:
            for a in d.get("a", ()):
                if a.get("k") != "closure":
                    continue
                lossy = [n for n in ir.walk_nodes(a["body"]) if n.get("k") in ("mcall", "call") and any((n.get("q") or "").endswith(w) for w in LOSSY)]
                ck.check(not lossy, "P1", fq + "|delegate-result", "the wrapped callback's result reaches the delegate unchanged",
                         "the callback's Option/Result is collapsed by %s before the delegate sees it: a None/Err result becomes indistinguishable from a real value" % [n.get("name") or n.get("q") for n in lossy], ir.loc(a))
    # ---- P2 (callers): a callback handed to a parallel operator runs concurrently on many items; if it captures shared mutable state
    # (a memo of the last input/output, a counter, a buffer) one item's result can depend on another item or on timing
    par_all = {b["q"] for b in par} | {b["q"] for b in ts if b["q"].rsplit("::", 1)[-1] in ("from_coord_iter_parallel",)}
    n_cb = 0
    for b in P.bodies:
        if not P.is_workspace(b["q"]) or "::tests::" in b["q"] or b.get("target") not in (None, "lib", "bin") or b.get("self_adt", "").endswith("::tile_stream::TileStream"):
            continue
        lets_b = {}
        for n in ir.walk_nodes(b["body"]):
            if n.get("k") == "let" and "init" in n and n["pat"].get("k") == "bind":
                lets_b[n["pat"]["hid"]] = n
        for n in ir.walk_nodes(b["body"]):
            if n.get("k") not in ("mcall", "call") or (n.get("rvq") or n.get("q")) not in par_all:
                continue
            for a in n.get("a", ()):
                if a.get("k") != "closure":
                    continue
                n_cb += 1
                shared = []
                for c in a.get("caps", []):
                    t_ = c["t"]
                    if any(w in t_ for w in ("Mutex<", "RwLock<", "Atomic", "Cell<", "RefCell<", "mpsc::", "Sender<", "Receiver<")):
                        shared.append((c["var"], t_.rsplit("::", 1)[-1][:60]))
                ck.check(not shared, "P2", "%s|callback#%d" % (b["q"], n_cb), "callback passed to %s captures no shared mutable state (%s)" % ((n.get("rvq") or n.get("q")).rsplit("::", 1)[-1], [c["var"] for c in a.get("caps", [])]),
                         "the callback passed to the parallel operator %s captures shared mutable state %s: concurrent items can read each other's results" % ((n.get("rvq") or n.get("q")).rsplit("::", 1)[-1], shared), ir.loc(a))
    ck.anchor("P2", "workspace callbacks passed to parallel operators", list(range(n_cb)), 2)
    # ---- P6: the non-parallel constructors / combinators conserve items: the set of stream adaptors each of them uses is the reviewed one
    # (1:1 adaptors only; `flatten` over `then(await .stream)` for from_stream_iter); a filtering adaptor in one of them drops tiles
    EXPECT = {"new_empty": {"boxed"}, "from_stream": set(), "from_vec": {"boxed"}, "from_stream_iter": {"then", "flatten"}, "map_coord": {"map", "boxed"},
              "collect": {"collect"}, "next": {"next"}}
    for nm, want in EXPECT.items():
        fb = [b for b in ts if b["q"].endswith("::" + nm)]
        if not fb:
            continue
        got = {y["name"] for y in ir.walk_nodes(fb[0]["body"]) if y.get("k") == "mcall" and any(t in (y.get("q") or "") for t in ("StreamExt", "stream::", "Iterator", "TryStreamExt"))}
        extra = got - want - {"boxed", "iter", "into_iter"}
        ck.check(not extra and (want - {"boxed"}) <= got | {"boxed"}, "P6", fb[0]["q"], "%s uses only item-preserving adaptors %s" % (nm, sorted(got)),
                 "%s uses the adaptor(s) %s: items (or whole sub-streams) can be dropped, reordered or duplicated" % (nm, sorted(extra) or sorted(want - got)), ir.loc(fb[0]))
    fsi = [b for b in ts if b["q"].endswith("::from_stream_iter")]
    if fsi:
        th_ = [y for y in ir.walk_nodes(fsi[0]["body"]) if y.get("k") == "mcall" and y.get("name") == "then" and y.get("a") and y["a"][0].get("k") == "closure"]
        okf = False
        if len(th_) == 1:
            clo = th_[0]["a"][0]
            ps = [x["hid"] for p_ in clo["params"] for x in ir.pat_binds(p_)]
            conds = [y["k"] for y in ir.walk_nodes(clo["body"]) if y.get("k") in ("if", "match") and "desugar" not in (y.get("m") or "") and y.get("msrc", "Normal") == "Normal"]
            flds = [y for y in ir.walk_nodes(clo["body"]) if y.get("k") == "field" and y.get("name") == "stream" and ir.contains(y["e"], lambda z: z.get("k") == "await" and ir.local_hid(z["e"]) in ps)]
            okf = bool(flds) and not conds
        ck.check(okf, "P6", fsi[0]["q"] + "|then", "every awaited sub-stream's `.stream` is handed to flatten unconditionally", "from_stream_iter does not pass every sub-stream on", ir.loc(fsi[0]))
    # ---- P5: the plain consumers hand every item to the callback exactly once: `self.stream.for_each(F)` on the whole stream (no adaptor),
    # where F is the callback itself or a closure that calls it once with its own item on every path
    from . import mvt as _mvt
    for nm in ("for_each_sync", "for_each_async"):
        fb = [b for b in ts if b["q"].endswith("::" + nm)]
        if not ck.anchor("P5", nm, fb, 1):
            continue
        b = fb[0]
        cbp = [x for p_ in b["params"] for x in ir.pat_binds(p_) if x["t"] == "F"]
        al = ir.Aliases(b)
        fe = [y for y in ir.walk_nodes(b["body"]) if y.get("k") == "mcall" and y.get("name") == "for_each" and "StreamExt" in (y.get("q") or "")]
        okp, why = False, "%d for_each calls" % len(fe)
        if len(fe) == 1 and cbp:
            recv = ir.strip(fe[0]["recv"])
            whole = recv.get("k") == "field" and recv.get("name") == "stream"
            a0 = ir.strip(fe[0]["a"][0])
            if a0.get("k") == "closure":
                ps = [x["hid"] for p_ in a0["params"] for x in ir.pat_binds(p_)]

                def is_cb(y):
                    return y.get("k") == "call" and "f" in y and al.hid(y["f"]) == al.canon(cbp[0]["hid"]) and y.get("a") and ir.local_hid(y["a"][0]) in ps
                cnt = _mvt.exit_counts(P, {"body": a0["body"]}, lambda y: 1 if is_cb(y) else None)
                okp = whole and cnt == {1}
                why = "callback invocations per item: %s, whole stream: %s" % (sorted(cnt), whole)
            else:
                okp = whole and al.hid(a0) == al.canon(cbp[0]["hid"])
                why = "callback passed through: %s" % okp
        ck.check(okp, "P5", b["q"], "%s hands every item of the stream to the callback exactly once" % nm, "%s does not call the callback once per item (%s): items never reach the consumer" % (nm, why), ir.loc(b))
    # ---- P4
    feb = [b for b in ts if b["q"].endswith("::for_each_buffered")]
    if ck.anchor("P4", "for_each_buffered", feb, 1):
        b = feb[0]
        cb = [x for p in b["params"] for x in ir.pat_binds(p) if x["t"] == "F"]
        al = ir.Aliases(b)
        loops = [n for n in ir.walk_nodes(b["body"]) if n.get("k") == "while" and n["c"].get("k") == "letx"]
        if ck.check(len(loops) == 1 and cb, "P4", b["q"] + "|loop", "one `while let Some(item) = next().await` loop", "loop shape not recognised", ir.loc(b)):
            lp = loops[0]
            item = ir.pat_binds(lp["c"]["pat"])
            nexts = [n for n in ir.walk_nodes(b["body"]) if n.get("k") == "mcall" and n.get("name") == "next"]
            ck.check(len(nexts) == 1 and ir.contains(lp["c"]["init"], lambda y: y is nexts[0]), "P4", b["q"] + "|single-pull", "items are pulled only by the loop condition",
                     "items are pulled in %d places" % len(nexts), ir.loc(lp))
            body = ir.unparen(lp["body"]) if lp["body"].get("k") != "block" else lp["body"]
            sts = ir.stmts_of(body)
            first = sts[0]["e"] if sts and sts[0].get("k") == "semi" else (sts[0] if sts else {})
            push_ok = first.get("k") == "mcall" and first.get("name") == "push" and item and ir.local_hid(first["a"][0]) == item[0]["hid"]
            buf_h = ir.local_hid(first["recv"]) if push_ok else None
            ck.check(push_ok, "P4", b["q"] + "|push", "every pulled item is pushed unconditionally as the first action", "the pulled item is not pushed unconditionally", ir.loc(lp))
            esc = [n for n in ir.walk_nodes(lp["body"]) if n.get("k") in ("break", "continue", "ret", "try")]
            ck.check(not esc, "P4", b["q"] + "|no-exit", "no early exit inside the loop", "early exit inside the loop loses buffered items", ir.loc(lp))
            # flush when full, then replace buffer
            flush = None
            for s in sts[1:]:
                x = s["e"] if s.get("k") == "semi" else s
                if x.get("k") == "if" and ir.contains(x["then"], lambda y: y.get("k") == "call" and "f" in y and al.hid(y["f"]) == cb[0]["hid"]):
                    flush = x
            okf = False
            if flush is not None and buf_h is not None:
                c = ir.cmp_norm(flush["c"])
                tsts = ir.stmts_of(flush["then"])
                ci = next((i for i, s in enumerate(tsts) if ir.contains(s, lambda y: y.get("k") == "call" and "f" in y and al.hid(y["f"]) == cb[0]["hid"] and ir.local_hid(y["a"][0]) == buf_h)), None)
                ai = next((i for i, s in enumerate(tsts) if ir.contains(s, lambda y: y.get("k") == "assign" and ir.local_hid(y["l"]) == buf_h and y["r"].get("k") == "call"
                                                                          and (y["r"].get("q") or "").startswith("alloc::vec::Vec::"))), None)
                okf = c is not None and ci is not None and ai is not None and ai > ci and c[1] in (">=", "==", ">", "<=", "<")
            ck.check(okf, "P4", b["q"] + "|flush-full", "a full buffer is handed to the callback and replaced by a fresh one", "full-buffer flush does not pass the buffer and replace it", ir.loc(lp))
            # final flush after the loop
            fin = False
            for n in ir.walk_nodes(b["body"]):
                if n.get("k") == "if" and n is not flush and buf_h is not None:
                    cond = ir.unparen(n["c"])
                    cn = ir.cmp_norm(cond)
                    len_nonzero = False
                    if cn is not None and cond.get("k") == "bin":
                        l_, r_ = ir.unparen(cond["l"]), ir.unparen(cond["r"])
                        for a_, b_, op_ in ((l_, r_, cond["op"]), (r_, l_, {"<": ">", ">": "<", "<=": ">=", ">=": "<=", "==": "==", "!=": "!="}.get(cond["op"]))):
                            if a_.get("k") == "mcall" and a_.get("name") == "len" and ir.local_hid(a_["recv"]) == buf_h:
                                v_ = ir.const_eval(b_, {})
                                len_nonzero = (op_ == ">" and v_ == 0) or (op_ == "!=" and v_ == 0) or (op_ == ">=" and v_ == 1)
                    nonempty = (cond.get("k") == "un" and cond["e"].get("k") == "mcall" and cond["e"].get("name") == "is_empty" and ir.local_hid(cond["e"]["recv"]) == buf_h) or len_nonzero
                    if nonempty and ir.contains(n["then"], lambda y: y.get("k") == "call" and "f" in y and al.hid(y["f"]) == cb[0]["hid"] and ir.local_hid(y["a"][0]) == buf_h):
                        fin = True
            ck.check(fin, "P4", b["q"] + "|flush-final", "a non-empty remainder is flushed after the loop", "the remainder after the loop is not flushed", ir.loc(b))

    # ---- P7: the concurrency limit is positive.  buffer_unordered(0) / buffered(0) never polls its source: the output neither yields nor
    # ends, so a stream (an empty one is enough) never completes and a consumer walking several sub-streams is stuck on it.
    n_lim = 0
    for b in ts + [x for x in P.bodies if x["crate"] in ("versatiles_core", "versatiles_container", "versatiles_pipeline") and x not in ts and "::tests::" not in x["q"]]:
        lets = comp_lets(b)
        for n in ir.walk_nodes(b["body"]):
            if n.get("k") == "mcall" and n.get("name") in ("buffer_unordered", "buffered", "for_each_concurrent", "try_for_each_concurrent", "ready_chunks", "chunks") and "futures" in (n.get("q") or ""):
                n_lim += 1
                a = n["a"][0]
                why = _positive(P, a, lets, 0)
                ck.check(why is None, "P7", "%s|%s-limit" % (b["q"], n["name"]), "the limit passed to %s is positive (num_cpus::get(), a positive constant, or max(.., 1))" % n["name"],
                         "the limit passed to %s is not shown to be >= 1 (%s): with 0 the adaptor never polls its source, the stream neither yields nor ends" % (n["name"], why), ir.loc(n))
    ck.anchor("P7", "buffering adaptors with a limit", n_lim, 3)


def comp_lets(b):
    out = {}
    for n in ir.walk_nodes(b["body"]):
        if n.get("k") == "let" and "init" in n and n["pat"].get("k") == "bind":
            out[n["pat"]["hid"]] = n["init"]
    return out


def _positive(P, e, lets, depth):
    """None if the expression is >= 1 on every path, else a reason"""
    e = ir.unparen(ir.strip(e))
    if depth > 6:
        return "too deep"
    k = e.get("k")
    c = ir.const_eval(e, {})
    if c is not None:
        return None if c >= 1 else "constant %s" % c
    if k == "cast":
        return _positive(P, e["e"], lets, depth + 1)
    if k == "path" and e.get("r") == "local":
        if e["hid"] in lets:
            return _positive(P, lets[e["hid"]], lets, depth + 1)
        return "`%s` is a parameter / pattern binding" % e.get("name")
    if k == "call":
        q = e.get("q") or ""
        if q in ("num_cpus::get", "num_cpus::get_physical") or q.endswith("available_parallelism"):
            return None
        if q.endswith(("cmp::max",)):
            return None if any(_positive(P, a, lets, depth + 1) is None for a in e["a"]) else "max of values not known positive"
        if q.endswith(("cmp::min",)):
            rs = [_positive(P, a, lets, depth + 1) for a in e["a"]]
            return None if all(r is None for r in rs) else "min with %s" % next(r for r in rs if r)
        cal = P.fn(q)
        if cal is not None and P.is_workspace(q):
            blk = ir.fn_block(cal)
            t = blk.get("tail") if isinstance(blk, dict) else None
            if t is None:
                return "result of %s" % q.rsplit("::", 1)[-1]
            r = _positive(P, t, comp_lets(cal), depth + 1)
            return None if r is None else "%s returns a value not known positive: %s" % (q.rsplit("::", 1)[-1], r)
        return "result of %s" % q.rsplit("::", 1)[-1]
    if k == "mcall":
        nm = e.get("name")
        if nm == "max":
            return None if (_positive(P, e["recv"], lets, depth + 1) is None or _positive(P, e["a"][0], lets, depth + 1) is None) else "max of values not known positive"
        if nm == "min":
            rs = [_positive(P, e["recv"], lets, depth + 1), _positive(P, e["a"][0], lets, depth + 1)]
            return None if all(r is None for r in rs) else "min with %s" % next(r for r in rs if r)
        if nm == "clamp":
            return _positive(P, e["a"][0], lets, depth + 1)
        if nm in ("unwrap_or", "map_or"):
            d = _positive(P, e["a"][0], lets, depth + 1)
            if d is not None:
                return d
            if nm == "map_or":
                clo = ir.strip(e["a"][1])
                if clo.get("k") == "closure":
                    r = _positive(P, clo["body"], lets, depth + 1)
                    return None if r is None else "map_or closure: %s" % r
                return "map_or with a non-closure"
            return "the Some value is not known positive"
        if nm == "get" and (e.get("q") or "").startswith("core::num::nonzero"):
            return None
        return "result of .%s()" % nm
    if k == "bin" and e.get("op") == "+":
        return None if (_positive(P, e["l"], lets, depth + 1) is None or _positive(P, e["r"], lets, depth + 1) is None) else "sum of values not known positive"
    if k == "if":
        rs = [_positive(P, e["then"], lets, depth + 1)] + ([_positive(P, e["els"], lets, depth + 1)] if "els" in e else ["no else"])
        return None if all(r is None for r in rs) else next(r for r in rs if r)
    if k == "block" and "tail" in e:
        return _positive(P, e["tail"], lets, depth + 1)
    return "expression of kind %s" % k


def _none_only_for_none(pc):
    """filter_map closure: returns None only if the task result's Option is None (or the JoinHandle failed)"""
    params = [x for p in pc["params"] for x in ir.pat_binds(p)]
    if not params:
        return False
    ph = params[0]["hid"]
    body = pc["body"]
    # look through the async block
    inner = [n for n in ir.walk_nodes(body) if n.get("k") == "closure"]
    blk = inner[0]["body"] if inner and "Coroutine" in inner[0].get("ck", "") else body
    tail = ir.unparen(blk)
    sts = ir.stmts_of(tail) if tail.get("k") == "block" else [tail]
    last = sts[-1] if sts else None
    if last is None:
        return False
    # form A: match result { Ok((coord, Some(blob))) => Some((coord, blob)), _ => None }
    if last.get("k") == "match" and ir.local_hid(last["e"]) == ph:
        arms = last["arms"]
        if len(arms) != 2:
            return False
        p0 = arms[0]["pat"]

        def irrefutable(p):
            return p.get("k") in ("bind", "wild") or (p.get("k") == "tuple" and all(irrefutable(x) for x in p["ps"]))
        ok_pat = p0.get("k") == "tstruct" and p0.get("q", "").endswith("Result::Ok::{Ctor#0}") and p0["ps"][0].get("k") == "tuple"
        if not ok_pat:
            return False
        a, b_ = p0["ps"][0]["ps"]
        some = b_.get("k") == "tstruct" and b_.get("q", "").endswith("Option::Some::{Ctor#0}") and irrefutable(b_["ps"][0])
        if not (irrefutable(a) and some):
            return False
        body0 = ir.unparen(arms[0]["body"])
        if not (body0.get("k") == "call" and body0.get("q", "").endswith("Option::Some::{Ctor#0}")):
            return False
        t = body0["a"][0]
        bh = {x["hid"] for x in ir.pat_binds(p0)}
        return t.get("k") == "tup" and all(ir.local_hid(x) in bh for x in t["es"]) and ir.local_hid(t["es"][0]) == ir.pat_binds(a)[0]["hid"]
    # form B: let (coord, maybe) = res.expect(..); maybe.map(|blob| (coord, blob))
    if last.get("k") == "mcall" and last.get("q", "").endswith("Option::map") and last["a"] and last["a"][0].get("k") == "closure":
        mh = ir.local_hid(last["recv"])
        lets = [s for s in sts if s.get("k") == "let" and "init" in s]
        for s in lets:
            bs = ir.pat_binds(s["pat"])
            if any(x["hid"] == mh for x in bs) and ir.contains(s["init"], lambda y: ir.local_hid(y) == ph):
                ch = [x["hid"] for x in bs if x["t"].endswith("TileCoord3")]
                mc = last["a"][0]
                t = ir.unparen(mc["body"])
                mp = [x["hid"] for p in mc["params"] for x in ir.pat_binds(p)]
                return t.get("k") == "tup" and len(t["es"]) == 2 and ir.local_hid(t["es"][0]) in ch and ir.local_hid(t["es"][1]) in mp
    return False


def mutants(P):
    out = []
    base = "versatiles_core::types::tile_stream::TileStream::"

    def chain_zip(body):
        return m_replace(body, lambda n: n.get("k") == "mcall" and n.get("name") == "buffer_unordered", lambda n: n.__setitem__("name", "zip"))
    out.append(("map_blob_parallel: adapter replaced by zip", base + "map_blob_parallel", chain_zip))

    def shared_capture(body):
        def fn(n):
            n["caps"].append({"place": "last", "var": "last", "hid": 9999, "by": "ByValue", "t": "std::sync::Arc<std::sync::Mutex<versatiles_core::types::tile_coords::TileCoord3>>", "mutbl": False})
        return m_replace(body, lambda n: n.get("k") == "closure" and "Coroutine" in n.get("ck", ""), fn)
    out.append(("filter_map_blob_parallel: future captures a shared Mutex", base + "filter_map_blob_parallel", shared_capture))

    def wrong_coord(body):
        def fn(n):
            n["es"][0] = {"k": "call", "q": "versatiles_core::types::tile_coords::TileCoord3::new", "t": "versatiles_core::types::tile_coords::TileCoord3", "a": [], "s": n["s"]}
        return m_replace(body, lambda n: n.get("k") == "tup" and len(n.get("es", ())) == 2 and n["es"][0].get("t", "").endswith("TileCoord3"), fn)
    out.append(("from_coord_iter_parallel: task returns a rebuilt coordinate", base + "from_coord_iter_parallel", wrong_coord))

    def cond_push(body):
        # push becomes conditional: wrap first stmt of loop body in an if
        for n in ir.walk_nodes(body["body"]):
            if n.get("k") == "while":
                blk = n["body"]
                st = blk["stmts"][0]
                blk["stmts"][0] = {"k": "if", "t": "()", "s": n["s"], "c": {"k": "lit", "lk": "bool", "v": True, "t": "bool"}, "then": {"k": "block", "stmts": [st], "s": n["s"]}}
                return True
        return False
    out.append(("for_each_buffered: push made conditional", base + "for_each_buffered", cond_push))

    def no_final(body):
        blk = ir.fn_block(body)
        for n in ir.walk_nodes(body["body"]):
            if n.get("k") == "block":
                for i, st in enumerate(n.get("stmts", [])):
                    x = st["e"] if st.get("k") == "semi" else st
                    if x.get("k") == "if" and ir.contains(x["c"], lambda y: y.get("k") == "mcall" and y.get("name") == "is_empty"):
                        del n["stmts"][i]
                        return True
                t = n.get("tail")
                if t is not None and t.get("k") == "if" and ir.contains(t["c"], lambda y: y.get("k") == "mcall" and y.get("name") == "is_empty"):
                    del n["tail"]
                    return True
        return False
    out.append(("for_each_buffered: final flush removed", base + "for_each_buffered", no_final))
    return out
