"""Hand-written source mutants: p = property broken, file, old -> new (old must occur exactly once), why it breaks p."""
V = "versatiles_container/src/container/versatiles/"
PM = "versatiles_container/src/container/pmtiles/"
MUTANTS = [
    # ---------------------------------------------------------------- C01
    dict(p="C01", id="block-def-minmax-swapped-both-sides", file=V + "types/block_definition.rs",
         old="""		writer.write_u8(self.tiles_coverage.x_min as u8)?;
		writer.write_u8(self.tiles_coverage.y_min as u8)?;""",
         new="""		writer.write_u8(self.tiles_coverage.y_min as u8)?;
		writer.write_u8(self.tiles_coverage.x_min as u8)?;""",
         why="writer emits y_min before x_min: off-spec file (own reader unchanged -> also round trip breaks)"),
    dict(p="C01", id="pm-writer-offset-not-relative", file=PM + "writer.rs",
         old="entries.push(EntryV3::new(id, range.get_shifted_backward(tile_data_start), 1));",
         new="entries.push(EntryV3::new(id, range, 1));",
         why="PMTiles entry offsets must be relative to the tile data section"),
    dict(p="C01", id="vt-writer-index-range-dropped", file=V + "writer.rs",
         old="			block.set_index_range(index_range);\n", new="",
         why="block definition keeps an empty index range -> reader cannot find the tile index"),
    dict(p="C01", id="vt-writer-dedup-wrong-key", file=V + "writer.rs",
         old="if let Some(range) = tile_hash_lookup.get(blob.as_slice()) {",
         new="if let Some(range) = tile_hash_lookup.get(&blob.as_slice()[..(blob.len() as usize).min(32)].to_vec()) {",
         why="de-duplication keyed by a prefix: different payloads share one range (second edit below makes it effective)",
         edits=[("tile_hash_lookup.insert(blob.into_vec(), range);", "tile_hash_lookup.insert(blob.as_slice()[..(blob.len() as usize).min(32)].to_vec(), range);")]),
    dict(p="C01", id="vt-write-block-length-is-end", file=V + "writer.rs",
         old="Ok((ByteRange::new(offset0, offset1 - offset0), index_range))", new="Ok((ByteRange::new(offset0, offset1), index_range))",
         why="tiles_range.length recorded as the absolute end position"),
    dict(p="C01", id="vt-header-ranges-crossed", file=V + "writer.rs",
         old="header.meta_range = Self::write_meta(reader, writer).await?;", new="header.blocks_range = Self::write_meta(reader, writer).await?;",
         why="meta range stored in the wrong header field (overwritten later: meta_range stays empty)"),
    dict(p="C01", id="block-new-local-box-wrong-axis", file=V + "types/block_definition.rs",
         old="			bbox.y_max - y * 256,", new="			bbox.y_max - x * 256,",
         why="local y_max computed with the block column"),
    dict(p="C01", id="block-new-position-div-255", file=V + "types/block_definition.rs",
         old="let y = bbox.y_min.div(256u32);", new="let y = bbox.y_min.div(255u32);",
         why="block row computed with the wrong divisor"),
    # ---------------------------------------------------------------- C02
    dict(p="C02", id="vt-stream-no-sort", file=V + "reader.rs",
         old="				tile_ranges.sort_by_key(|e| e.1.offset);\n", new="",
         why="chunks assume ascending offsets; with de-duplicated tiles Chunk::push panics or slices wrong bytes"),
    dict(p="C02", id="vt-stream-index-in-used-box", file=V + "reader.rs",
         old="tiles_bbox_block.get_coord3_by_index(index as u32).unwrap(), *range))",
         new="tiles_bbox_used.get_coord3_by_index(index as u32).unwrap(), *range))",
         why="tile index positions are relative to the block's box, not to the requested intersection"),
    dict(p="C02", id="vt-stream-no-box-filter", file=V + "reader.rs",
         old=".filter(|(coord, range)| tiles_bbox_used.contains3(coord) && (range.length > 0))",
         new=".filter(|(_coord, range)| range.length > 0)",
         why="delivers every tile of the block, also outside the requested box"),
    # ---------------------------------------------------------------- C16
    dict(p="C16", id="block-def-global-box-255", file=V + "types/block_definition.rs",
         old="TileBBox::new(z, x_min + x * 256, y_min + y * 256, x_max + x * 256, y_max + y * 256)?;",
         new="TileBBox::new(z, x_min + x * 256, y_min + y * 256, x_max + x * 256, y_max + y * 255)?;",
         why="partial blocks in rows y>0 get a wrong global box"),
    dict(p="C16", id="vt-lookup-no-partial-block-guard", file=V + "reader.rs",
         old="		if !bbox.contains2(&tile_coord) {", new="		if false && !bbox.contains2(&tile_coord) {",
         why="partial blocks (never emitted by the own writer with min>0?) - lookups outside the block box hit unwrap()"),
    # ---------------------------------------------------------------- C12
    dict(p="C12", id="pm-header-first", file=PM + "writer.rs",
         old="		writer.set_position(16384)?;\n\n		let mut header = HeaderV3::from_parameters(&parameters);\n",
         new="		let mut header = HeaderV3::from_parameters(&parameters);\n		writer.write_start(&header.serialize()?)?;\n		writer.set_position(16384)?;\n",
         why="magic is on disk before the directories: a crash leaves a file that opens as a valid empty container"),
    dict(p="C12", id="vt-final-header-before-blocks", file=V + "writer.rs",
         old="""		header.blocks_range = Self::write_blocks(reader, writer).await?;

		trace!("update header");
		let blob: Blob = header.to_blob()?;
		writer.write_start(&blob)?;
""",
         new="""		let blob: Blob = header.to_blob()?;
		writer.write_start(&blob)?;
		header.blocks_range = Self::write_blocks(reader, writer).await?;

		trace!("update header");
		let blob: Blob = header.to_blob()?;
		writer.write_start(&blob)?;
""",
         why="harmless extra header write (meta range only) - blocks_range still empty: must NOT be flagged... (control)", control=True),
    # ---------------------------------------------------------------- C03
    dict(p="C03", id="mb-refine-max-wrong-direction", file="versatiles_container/src/container/mbtiles/reader.rs",
         old='y1 = query("MAX(tile_row)", &format!("{sql_prefix} tile_row >= {y1}"))?;', new='y1 = query("MAX(tile_row)", &format!("{sql_prefix} tile_row <= {y1}"))?;',
         why="refinement of the MAX estimate searches below the estimate: rows above it are never found"),
    dict(p="C03", id="mb-no-flip", file="versatiles_container/src/container/mbtiles/reader.rs",
         old="		bbox_pyramid.flip_y();\n\n		Ok(bbox_pyramid)", new="		Ok(bbox_pyramid)",
         why="coverage stays in TMS rows while lookups use XYZ"),
    dict(p="C03", id="mb-bbox-args-crossed", file="versatiles_container/src/container/mbtiles/reader.rs",
         old="				x0.clamp(0, max_value) as u32,\n				y0.clamp(0, max_value) as u32,", new="				y0.clamp(0, max_value) as u32,\n				x0.clamp(0, max_value) as u32,",
         why="x_min and y_min crossed in the advertised box"),
    dict(p="C03", id="mb-estimate-only", file="versatiles_container/src/container/mbtiles/reader.rs",
         old='			y0 = query("MIN(tile_row)", &format!("{sql_prefix} tile_row <= {y0}"))?;\n', new="",
         why="MIN(tile_row) stays the three-column estimate"),
    dict(p="C03", id="tar-no-include", file="versatiles_container/src/container/tar/reader.rs",
         old="				bbox_pyramid.include_coord(&coord3);\n", new="",
         why="tar coverage never includes the stored coordinates"),
    dict(p="C03", id="tar-include-before-format-check-skipped-compression", file="versatiles_container/src/container/tar/reader.rs",
         old="				let coord3 = TileCoord3::new(x, y, z)?;\n				bbox_pyramid.include_coord(&coord3);",
         new="				let coord3 = TileCoord3::new(x, y, z)?;\n				if length > 0 {\n					bbox_pyramid.include_coord(&coord3);\n				}",
         why="zero-length members are served by lookups (Some(empty)) but not advertised", ),
    dict(p="C03", id="vt-pyramid-first-block-only", file="versatiles_container/src/container/versatiles/types/block_index.rs",
         old="		for (_coord, block) in self.lookup.iter() {\n			pyramid.include_bbox(block.get_global_bbox());\n		}",
         new="		for (_coord, block) in self.lookup.iter() {\n			if pyramid.get_level_bbox(block.get_global_bbox().level).is_empty() {\n				pyramid.include_bbox(block.get_global_bbox());\n			}\n		}",
         why="only the first block of each level is included"),
    dict(p="C03", id="pm-scan-skips-run-tail", file="versatiles_container/src/container/pmtiles/reader.rs",
         old="for i in 0..entry.run_length as u64 {", new="for i in 0..(entry.run_length as u64).min(1) {",
         why="only the first tile of a run is advertised"),
    # ---------------------------------------------------------------- C04
    dict(p="C04", id="pipeline-run-reversed", file="versatiles_container/src/container/tile_converter.rs",
         old="		for f in self.pipeline.iter() {\n			blob = f.run(blob)?;", new="		for f in self.pipeline.iter().rev() {\n			blob = f.run(blob)?;",
         why="lookup path runs compress before decompress"),
    dict(p="C04", id="stream-skips-first-step", file="versatiles_container/src/container/tile_converter.rs",
         old="			for f in pipeline.iter() {\n				blob = f.run(blob).unwrap();", new="			for f in pipeline.iter().skip(1) {\n				blob = f.run(blob).unwrap();",
         why="stream path drops the decompression step"),
    dict(p="C04", id="force-and-instead-of-or", file="versatiles_container/src/container/tile_converter.rs",
         old="if force_recompress || (src_comp != dst_comp) {", new="if force_recompress && (src_comp != dst_comp) {",
         why="without force nothing is re-encoded although the declared compression changes"),
    dict(p="C04", id="recompressor-args-crossed", file="versatiles_container/src/container/converter.rs",
         old="			&rp.tile_compression,\n			&new_rp.tile_compression,", new="			&new_rp.tile_compression,\n			&rp.tile_compression,",
         why="recompressor built for target -> source"),
    dict(p="C04", id="declared-compression-not-updated", file="versatiles_container/src/container/converter.rs",
         old="new_rp.tile_compression = cp.tile_compression.unwrap_or(rp.tile_compression);", new="new_rp.tile_compression = rp.tile_compression;",
         why="requested target compression ignored in the declaration (and pipeline)", control=False),
    dict(p="C04", id="vt-meta-compressed-gzip-always", file="versatiles_container/src/container/versatiles/writer.rs",
         old="let compressed = compress(meta, &reader.get_parameters().tile_compression)?;", new="let compressed = compress(meta, &TileCompression::Gzip)?;",
         why="metadata encoded with gzip but the reader decodes it with the declared tile compression"),
    # ---------------------------------------------------------------- C05
    dict(p="C05", id="accept-crossed", file="versatiles/src/tools/server/tile_server.rs",
         old='		if encoding_string.contains("gzip") {\n			encoding_set.insert(TileCompression::Gzip);', new='		if encoding_string.contains("gzip") {\n			encoding_set.insert(TileCompression::Brotli);',
         why="client that accepts gzip is sent brotli"),
    dict(p="C05", id="content-encoding-crossed", file="versatiles/src/tools/server/tile_server.rs",
         old='Gzip => response = response.header(CONTENT_ENCODING, "gzip"),', new='Gzip => response = response.header(CONTENT_ENCODING, "br"),',
         why="gzip body labelled br"),
    dict(p="C05", id="lookup-error-is-400", file="versatiles/src/tools/server/sources/tile_source.rs",
         old="			if tile.is_err() {\n				return Ok(None);\n			}\n", new="",
         why="an error of the reader now propagates (400) instead of 404 — property says any other coordinate gives 404", ),
    dict(p="C05", id="source-compression-label-wrong", file="versatiles/src/tools/server/sources/tile_source.rs",
         old="Ok(SourceResponse::new_some(tile, &self.compression, &self.tile_mime))", new="Ok(SourceResponse::new_some(tile, &TileCompression::Uncompressed, &self.tile_mime))",
         why="stored compression not reported: compressed bytes are sent as identity"),
    # ---------------------------------------------------------------- C06
    dict(p="C06", id="cli-min-zoom-sets-max", file="versatiles/src/tools/convert.rs",
         old="		bbox_pyramid.set_zoom_min(min_zoom)", new="		bbox_pyramid.set_zoom_max(min_zoom)",
         why="--min-zoom wired to the upper limit"),
    dict(p="C06", id="cli-border-before-bbox", file="versatiles/src/tools/convert.rs",
         old="			bbox_pyramid.add_border(b, b, b, b);", new="			bbox_pyramid.add_border(b, b, 0, 0);",
         why="border only added on the min side"),
    dict(p="C06", id="cli-border-without-bbox-dropped", file="versatiles/src/tools/convert.rs",
         old="		bbox_pyramid.intersect_geo_bbox(&GeoBBox::try_from(values)?)?;\n", new="		let _ = GeoBBox::try_from(values)?;\n",
         why="--bbox parsed but never applied"),
    dict(p="C06", id="stream-out-map-only-when-both", file="versatiles_container/src/container/converter.rs",
         old="		if flip_y || swap_xy {\n			stream = stream.map_coord", new="		if flip_y && swap_xy {\n			stream = stream.map_coord",
         why="with a single flag streamed coordinates are not mapped back"),
    dict(p="C06", id="coverage-intersect-before-transform", file="versatiles_container/src/container/converter.rs",
         old="""		if cp.flip_y {
			new_rp.bbox_pyramid.flip_y();
		}
		if cp.swap_xy {
			new_rp.bbox_pyramid.swap_xy();
		}

		if let Some(bbox_pyramid) = &cp.bbox_pyramid {
			new_rp.bbox_pyramid.intersect(bbox_pyramid);
		}
""",
         new="""		if let Some(bbox_pyramid) = &cp.bbox_pyramid {
			new_rp.bbox_pyramid.intersect(bbox_pyramid);
		}

		if cp.flip_y {
			new_rp.bbox_pyramid.flip_y();
		}
		if cp.swap_xy {
			new_rp.bbox_pyramid.swap_xy();
		}
""",
         why="requested selection applied in source coordinates instead of output coordinates"),
    dict(p="C06", id="stream-no-recompress", file="versatiles_container/src/container/converter.rs",
         old="			stream = tile_recompressor.process_stream(stream);", new="			let _ = tile_recompressor;",
         why="(C04) stream path skips recompression", checks=["C04"]),
    # ---------------------------------------------------------------- C07
    dict(p="C07", id="guard-allows-parentdir", file="versatiles/src/tools/server/sources/static_source_folder.rs",
         old="			.any(|c| !matches!(c, Component::Normal(_) | Component::CurDir))", new="			.any(|c| !matches!(c, Component::Normal(_) | Component::CurDir | Component::ParentDir))",
         why="`..` components accepted again (lexical starts_with passes)"),
    dict(p="C07", id="guard-result-ignored", file="versatiles/src/tools/server/sources/static_source_folder.rs",
         old="""		{
			return None;
		}

		// If the path is a directory, append 'index.html'""", new="""		{
			log::warn!("suspicious path");
		}

		// If the path is a directory, append 'index.html'""",
         why="guard only logs"),
    dict(p="C07", id="guard-after-open", file="versatiles/src/tools/server/sources/static_source_folder.rs",
         old="		let mut local_path = url.as_path(&self.folder);\n", new="		let mut local_path = url.as_path(&self.folder);\n		let probe = File::open(&local_path).is_ok();\n		log::trace!(\"exists: {probe}\");\n",
         why="file outside the root is opened (existence oracle) before the guard; content is not returned -> control: property only speaks of returned content", control=True),
    dict(p="C07", id="as-path-absolute", file="versatiles/src/tools/server/utils/url.rs",
         old="		base.join(&self.str[1..])", new="		base.join(&self.str)",
         why="joining an absolute path replaces the base: /etc/passwd is served... (guard strip_prefix fails -> None) — guard still catches it: control", control=True),
    # ---------------------------------------------------------------- C20
    dict(p="C20", id="add-capacity-off-by-one", file="versatiles_core/src/types/limited_cache.rs",
         old="		if self.cache.len() >= self.max_length {", new="		if self.cache.len() > self.max_length {",
         why="cache grows to max_length + 1 entries"),
    dict(p="C20", id="cleanup-keeps-median", file="versatiles_core/src/types/limited_cache.rs",
         old="			if *idx <= median_index {", new="			if *idx < median_index {",
         why="with equal stamps (all survivors are reset to 0) nothing is evicted: capacity exceeded"),
    dict(p="C20", id="capacity-ignores-value-size", file="versatiles_core/src/types/limited_cache.rs",
         old="let per_element_size = size_of::<K>() + size_of::<V>();", new="let per_element_size = size_of::<K>();",
         why="byte budget divided by the key size only: more entries than the budget allows"),
    dict(p="C20", id="get-or-set-stores-under-default-key", file="versatiles_core/src/types/limited_cache.rs",
         old="		self.add(key.clone(), value);\n		Ok(cloned_value)", new="		Ok(self.add(key.clone(), value))",
         why="returns what the cache holds after add (or_insert keeps an older value if present) — equivalent here because get() missed: control", control=True),
    dict(p="C20", id="cleanup-upper-median", file="versatiles_core/src/types/limited_cache.rs",
         old="let median_index = indices[(indices.len() - 1).div(2)];", new="let median_index = indices[indices.len().div(2)];",
         why="F10 regression: with two entries the just-used one is evicted"),
    dict(p="C20", id="get-no-stamp-increment", file="versatiles_core/src/types/limited_cache.rs",
         old="			self.last_index += 1;\n			*old_index = self.last_index;\n			Some(value.clone())", new="			*old_index = self.last_index;\n			Some(value.clone())",
         why="a used entry gets the stamp of the last insertion, ties with it"),
    # ---------------------------------------------------------------- C09
    dict(p="C09", id="zoom-min-max-crossed", file="versatiles_pipeline/src/operations/transform/filter_zoom.rs",
         old="				parameters.bbox_pyramid.set_zoom_min(min);", new="				parameters.bbox_pyramid.set_zoom_max(min);",
         why="min= wired to the upper limit"),
    dict(p="C09", id="zoom-lookup-unguarded", file="versatiles_pipeline/src/operations/transform/filter_zoom.rs",
         old="		if self.parameters.bbox_pyramid.contains_coord(coord) {\n			self.source.get_tile_data(coord).await\n		} else {\n			Ok(None)\n		}",
         new="		self.source.get_tile_data(coord).await", why="lookups outside the retained zoom range pass"),
    dict(p="C09", id="zoom-stream-unclipped", file="versatiles_pipeline/src/operations/transform/filter_zoom.rs",
         old="		bbox.intersect_pyramid(&self.parameters.bbox_pyramid).unwrap();\n		self.source.get_tile_stream(bbox).await", new="		self.source.get_tile_stream(bbox).await",
         why="streams outside the retained range pass"),
    dict(p="C09", id="zoom-guard-uses-source-coverage", file="versatiles_pipeline/src/operations/transform/filter_zoom.rs",
         old="		if self.parameters.bbox_pyramid.contains_coord(coord) {", new="		if self.source.get_parameters().bbox_pyramid.contains_coord(coord) {",
         why="lookup guarded by the un-narrowed coverage of the source"),
    # ---------------------------------------------------------------- C10
    dict(p="C10", id="merge-replaces-layer", file="versatiles_pipeline/src/operations/read/from_vectortiles_merged.rs",
         old="				layer.add_from_layer(new_layer)?;", new="				*layer = new_layer;",
         why="later source replaces the layer instead of appending its features"),
    dict(p="C10", id="merge-lookup-skips-decompress", file="versatiles_pipeline/src/operations/read/from_vectortiles_merged.rs",
         old="				blob = decompress(blob, &source.get_parameters().tile_compression)?;\n				blobs.push(blob);", new="				blobs.push(blob);",
         why="compressed source tiles are parsed as raw MVT"),
    dict(p="C10", id="merge-stream-decompress-first-source", file="versatiles_pipeline/src/operations/read/from_vectortiles_merged.rs",
         old="						blob = decompress(blob, &source.get_parameters().tile_compression).unwrap();", new="						blob = decompress(blob, &self.sources[0].get_parameters().tile_compression).unwrap();",
         why="stream decodes every source with the first source's compression"),
    dict(p="C10", id="add-from-layer-keeps-tag-ids", file="versatiles_geometry/src/vector_tile/layer.rs",
         old="			let properties = layer.decode_tag_ids(&feature.tag_ids)?;\n			self.add_vector_tile_features(feature, properties);", new="			let _properties = layer.decode_tag_ids(&feature.tag_ids)?;\n			self.features.push(feature);",
         why="features keep tag ids of the other layer's tables"),
    dict(p="C10", id="add-from-layer-reversed", file="versatiles_geometry/src/vector_tile/layer.rs",
         old="		for feature in features {\n			let properties = layer.decode_tag_ids", new="		for feature in features.into_iter().rev() {\n			let properties = layer.decode_tag_ids",
         why="source order of features reversed"),
    # ---------------------------------------------------------------- C08
    dict(p="C08", id="lookup-continues-after-hit", file="versatiles_pipeline/src/operations/read/from_overlayed.rs",
         old="				return Ok(Some(blob));\n			}\n		}\n		return Ok(None);", new="				found = Some(blob);\n			}\n		}\n		return Ok(found);",
         why="last source with a tile wins (needs `let mut found = None;`)", edits=[("		for source in self.sources.iter() {\n			let result = source.get_tile_data(coord).await?;", "		let mut found = None;\n		for source in self.sources.iter() {\n			let result = source.get_tile_data(coord).await?;")]),
    dict(p="C08", id="stream-recompress-from-declared", file="versatiles_pipeline/src/operations/read/from_overlayed.rs",
         old="blob = recompress(blob, &source.get_parameters().tile_compression, output_compression).unwrap();", new="blob = recompress(blob, output_compression, output_compression).unwrap();",
         why="stream re-encodes from the overlay's own compression instead of the producing source's"),
    dict(p="C08", id="coverage-first-source-only", file="versatiles_pipeline/src/operations/read/from_overlayed.rs",
         old="				pyramid.include_bbox_pyramid(&parameters.bbox_pyramid);\n				ensure!(\n					parameters.tile_format == tile_format,", new="				ensure!(\n					parameters.tile_format == tile_format,",
         why="advertised coverage is the first source's only"),
    # ================================================================ behaviour-preserving refactors (controls: every check must stay silent)
    dict(p="C03", id="ctl-mb-rename-locals", file="versatiles_container/src/container/mbtiles/reader.rs", control=True, checks=["C03", "C16", "C02"],
         old="PLACEHOLDER", new="PLACEHOLDER", why="rename y0/y1/x0/x1 in get_bbox_pyramid", regex=[(r"\by0\b", "row_lo"), (r"\by1\b", "row_hi"), (r"\bx0\b", "col_lo"), (r"\bx1\b", "col_hi")]),
    dict(p="C09", id="ctl-zoom-lookup-early-return", file="versatiles_pipeline/src/operations/transform/filter_zoom.rs", control=True, checks=["C09", "C02"],
         old="		if self.parameters.bbox_pyramid.contains_coord(coord) {\n			self.source.get_tile_data(coord).await\n		} else {\n			Ok(None)\n		}",
         new="		if !self.parameters.bbox_pyramid.contains_coord(coord) {\n			return Ok(None);\n		}\n		self.source.get_tile_data(coord).await",
         why="guard written as early return"),
    dict(p="C08", id="ctl-overlay-lookup-match", file="versatiles_pipeline/src/operations/read/from_overlayed.rs", control=True, checks=["C08", "C02"],
         old="			if let Some(mut blob) = result {\n				blob = recompress(\n					blob,\n					&source.get_parameters().tile_compression,\n					&self.parameters.tile_compression,\n				)?;\n				return Ok(Some(blob));\n			}",
         new="			if let Some(blob) = result {\n				let blob = recompress(\n					blob,\n					&source.get_parameters().tile_compression,\n					&self.parameters.tile_compression,\n				)?;\n				return Ok(Some(blob));\n			}",
         why="shadowing instead of mut"),
    dict(p="C01", id="ctl-vt-writer-rename", file="versatiles_container/src/container/versatiles/writer.rs", control=True, checks=["C01", "C12", "C04"],
         old="PLACEHOLDER", new="PLACEHOLDER", why="rename offset0/offset1/tile_index in write_block", regex=[(r"\boffset0\b", "block_start"), (r"\boffset1\b", "block_end"), (r"\btile_hash_lookup\b", "seen")]),
    dict(p="C02", id="ctl-vt-stream-rename", file="versatiles_container/src/container/versatiles/reader.rs", control=True, checks=["C02", "C16", "C19", "C13"],
         old="PLACEHOLDER", new="PLACEHOLDER", why="rename locals of the chunked stream", regex=[(r"\btiles_bbox_block\b", "block_box"), (r"\btiles_bbox_used\b", "wanted"), (r"\btile_ranges\b", "entries_in_box"), (r"\bbig_blob\b", "chunk_bytes")]),
    dict(p="C20", id="ctl-cache-get-match", file="versatiles_core/src/types/limited_cache.rs", control=True, checks=["C20"],
         old="		if let Some((value, old_index)) = self.cache.get_mut(key) {\n			self.last_index += 1;\n			*old_index = self.last_index;\n			Some(value.clone())\n		} else {\n			None\n		}",
         new="		match self.cache.get_mut(key) {\n			Some((value, old_index)) => {\n				self.last_index += 1;\n				*old_index = self.last_index;\n				Some(value.clone())\n			}\n			None => None,\n		}",
         why="if-let rewritten as match"),
    dict(p="C20", id="ctl-cache-add-early-cleanup", file="versatiles_core/src/types/limited_cache.rs", control=True, checks=["C20"],
         old="		if self.cache.len() >= self.max_length {\n			self.cleanup();\n		}\n\n		self.last_index += 1;", new="		self.last_index += 1;\n		if self.cache.len() >= self.max_length {\n			self.cleanup();\n		}\n",
         why="stamp incremented before the cleanup (independent statements reordered)"),
    dict(p="C01", id="ctl-block-size-const", file="versatiles_container/src/container/versatiles/types/block_definition.rs", control=True, checks=["C01", "C16", "C19"],
         old="PLACEHOLDER", new="PLACEHOLDER", why="literal 256 replaced by a named constant in block_definition.rs",
         regex=[(r"\b256u32\b", "BLOCK_SIZE"), (r"\* 256\b", "* BLOCK_SIZE"), (r"^(use [^\n]*;\n)", r"\1\nconst BLOCK_SIZE: u32 = 256;\n")], regex_count={2: 1}),
    dict(p="C01", id="ctl-writer-trace-lines", file="versatiles_container/src/container/versatiles/writer.rs", control=True, checks=["C01", "C12", "C04", "C02"],
         old='		trace!("write blocks");', new='		trace!("write blocks");\n		log::debug!("writer position before blocks: {:?}", writer.get_position());',
         why="extra logging that reads the writer position"),
    dict(p="C12", id="ctl-pm-writer-message", file="versatiles_container/src/container/pmtiles/writer.rs", control=True, checks=["C12", "C01", "C04"],
         old='"converting tiles"', new='"converting tiles to pmtiles"', why="progress message changed"),
    dict(p="C08", id="ctl-overlay-lookup-iterator", file="versatiles_pipeline/src/operations/read/from_overlayed.rs", control=True, checks=["C08", "C02", "C03"],
         old="		for source in self.sources.iter() {\n			let result = source.get_tile_data(coord).await?;", new="		for source in &self.sources {\n			let result = source.get_tile_data(coord).await?;",
         why="`for x in &v` instead of `v.iter()`"),
    dict(p="C20", id="ctl-cache-doc-and-assert", file="versatiles_core/src/types/limited_cache.rs", control=True, checks=["C20", "C19"],
         old="		self.last_index += 1;\n		// Insert or replace.", new="		self.last_index += 1;\n		debug_assert!(self.max_length >= 1);\n		// Insert or replace.",
         why="debug assertion added"),
    dict(p="C07", id="ctl-static-trace", file="versatiles/src/tools/server/sources/static_source_folder.rs", control=True, checks=["C07", "C05"],
         old="		let mime = guess_mime(&local_path);", new="		log::trace!(\"serving {:?}\", local_path);\n		let mime = guess_mime(&local_path);",
         why="trace line printing the path"),
    dict(p="C14", id="ctl-parallel-rename-closure-args", file="versatiles_core/src/types/tile_stream.rs", control=True, checks=["C14"],
         old="PLACEHOLDER", new="PLACEHOLDER", why="rename arc_cb / cb in the parallel operators", regex=[(r"\barc_cb\b", "shared_callback"), (r"\bcb\b", "callback_ref")]),
]
