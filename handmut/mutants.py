"""Hand-written source mutants: p = property broken, file, old -> new (old must occur exactly once), why it breaks p."""
V = "versatiles_container/src/container/versatiles/"
PM = "versatiles_container/src/container/pmtiles/"
MUTANTS = [
    # ---------------------------------------------------------------- C01
    dict(p="C01", id="block-def-minmax-swapped-both-sides", file=V + "types/block_definition.rs",
         old="""		writer.write_u8(self.tiles_coverage.x_min as u8)?;
		writer.write_u8(self.tiles_coverage.y_min as u8)?;""",
         new="""		writer.write_u8(self.tiles_coverage.y_min as u8)?;
		writer.write_u8(self.tiles_coverage.x_min as u8)?;""",
         why="writer emits y_min before x_min: off-spec file (own reader unchanged -> also round trip breaks)"),
    dict(p="C01", id="pm-writer-offset-not-relative", file=PM + "writer.rs",
         old="entries.push(EntryV3::new(id, range.get_shifted_backward(tile_data_start), 1));",
         new="entries.push(EntryV3::new(id, range, 1));",
         why="PMTiles entry offsets must be relative to the tile data section"),
    dict(p="C01", id="vt-writer-index-range-dropped", file=V + "writer.rs",
         old="			block.set_index_range(index_range);\n", new="",
         why="block definition keeps an empty index range -> reader cannot find the tile index"),
    dict(p="C01", id="vt-writer-dedup-wrong-key", file=V + "writer.rs",
         old="if let Some(range) = tile_hash_lookup.get(blob.as_slice()) {",
         new="if let Some(range) = tile_hash_lookup.get(&blob.as_slice()[..(blob.len() as usize).min(32)].to_vec()) {",
         why="de-duplication keyed by a prefix: different payloads share one range (second edit below makes it effective)",
         edits=[("tile_hash_lookup.insert(blob.into_vec(), range);", "tile_hash_lookup.insert(blob.as_slice()[..(blob.len() as usize).min(32)].to_vec(), range);")]),
    dict(p="C01", id="vt-write-block-length-is-end", file=V + "writer.rs",
         old="Ok((ByteRange::new(offset0, offset1 - offset0), index_range))", new="Ok((ByteRange::new(offset0, offset1), index_range))",
         why="tiles_range.length recorded as the absolute end position"),
    dict(p="C01", id="vt-header-ranges-crossed", file=V + "writer.rs",
         old="header.meta_range = Self::write_meta(reader, writer).await?;", new="header.blocks_range = Self::write_meta(reader, writer).await?;",
         why="meta range stored in the wrong header field (overwritten later: meta_range stays empty)"),
    dict(p="C01", id="block-new-local-box-wrong-axis", file=V + "types/block_definition.rs",
         old="			bbox.y_max - y * 256,", new="			bbox.y_max - x * 256,",
         why="local y_max computed with the block column"),
    dict(p="C01", id="block-new-position-div-255", file=V + "types/block_definition.rs",
         old="let y = bbox.y_min.div(256u32);", new="let y = bbox.y_min.div(255u32);",
         why="block row computed with the wrong divisor"),
    # ---------------------------------------------------------------- C02
    dict(p="C02", id="vt-stream-no-sort", file=V + "reader.rs",
         old="				tile_ranges.sort_by_key(|e| e.1.offset);\n", new="",
         why="chunks assume ascending offsets; with de-duplicated tiles Chunk::push panics or slices wrong bytes"),
    dict(p="C02", id="vt-stream-index-in-used-box", file=V + "reader.rs",
         old="tiles_bbox_block.get_coord3_by_index(index as u32).unwrap(), *range))",
         new="tiles_bbox_used.get_coord3_by_index(index as u32).unwrap(), *range))",
         why="tile index positions are relative to the block's box, not to the requested intersection"),
    dict(p="C02", id="vt-stream-no-box-filter", file=V + "reader.rs",
         old=".filter(|(coord, range)| tiles_bbox_used.contains3(coord) && (range.length > 0))",
         new=".filter(|(_coord, range)| range.length > 0)",
         why="delivers every tile of the block, also outside the requested box"),
    # ---------------------------------------------------------------- C16
    dict(p="C16", id="block-def-global-box-255", file=V + "types/block_definition.rs",
         old="TileBBox::new(z, x_min + x * 256, y_min + y * 256, x_max + x * 256, y_max + y * 256)?;",
         new="TileBBox::new(z, x_min + x * 256, y_min + y * 256, x_max + x * 256, y_max + y * 255)?;",
         why="partial blocks in rows y>0 get a wrong global box"),
    dict(p="C16", id="vt-lookup-no-partial-block-guard", file=V + "reader.rs",
         old="		if !bbox.contains2(&tile_coord) {", new="		if false && !bbox.contains2(&tile_coord) {",
         why="partial blocks (never emitted by the own writer with min>0?) - lookups outside the block box hit unwrap()"),
    # ---------------------------------------------------------------- C12
    dict(p="C12", id="pm-header-first", file=PM + "writer.rs",
         old="		writer.set_position(16384)?;\n\n		let mut header = HeaderV3::from_parameters(&parameters);\n",
         new="		let mut header = HeaderV3::from_parameters(&parameters);\n		writer.write_start(&header.serialize()?)?;\n		writer.set_position(16384)?;\n",
         why="magic is on disk before the directories: a crash leaves a file that opens as a valid empty container"),
    dict(p="C12", id="vt-final-header-before-blocks", file=V + "writer.rs",
         old="""		header.blocks_range = Self::write_blocks(reader, writer).await?;

		trace!("update header");
		let blob: Blob = header.to_blob()?;
		writer.write_start(&blob)?;
""",
         new="""		let blob: Blob = header.to_blob()?;
		writer.write_start(&blob)?;
		header.blocks_range = Self::write_blocks(reader, writer).await?;

		trace!("update header");
		let blob: Blob = header.to_blob()?;
		writer.write_start(&blob)?;
""",
         why="harmless extra header write (meta range only) - blocks_range still empty: must NOT be flagged... (control)", control=True),
    # ---------------------------------------------------------------- C03
    dict(p="C03", id="mb-refine-max-wrong-direction", file="versatiles_container/src/container/mbtiles/reader.rs",
         old='y1 = query("MAX(tile_row)", &format!("{sql_prefix} tile_row >= {y1}"))?;', new='y1 = query("MAX(tile_row)", &format!("{sql_prefix} tile_row <= {y1}"))?;',
         why="refinement of the MAX estimate searches below the estimate: rows above it are never found"),
    dict(p="C03", id="mb-no-flip", file="versatiles_container/src/container/mbtiles/reader.rs",
         old="		bbox_pyramid.flip_y();\n\n		Ok(bbox_pyramid)", new="		Ok(bbox_pyramid)",
         why="coverage stays in TMS rows while lookups use XYZ"),
    dict(p="C03", id="mb-bbox-args-crossed", file="versatiles_container/src/container/mbtiles/reader.rs",
         old="				x0.clamp(0, max_value) as u32,\n				y0.clamp(0, max_value) as u32,", new="				y0.clamp(0, max_value) as u32,\n				x0.clamp(0, max_value) as u32,",
         why="x_min and y_min crossed in the advertised box"),
    dict(p="C03", id="mb-estimate-only", file="versatiles_container/src/container/mbtiles/reader.rs",
         old='			y0 = query("MIN(tile_row)", &format!("{sql_prefix} tile_row <= {y0}"))?;\n', new="",
         why="MIN(tile_row) stays the three-column estimate"),
    dict(p="C03", id="tar-no-include", file="versatiles_container/src/container/tar/reader.rs",
         old="				bbox_pyramid.include_coord(&coord3);\n", new="",
         why="tar coverage never includes the stored coordinates"),
    dict(p="C03", id="tar-include-before-format-check-skipped-compression", file="versatiles_container/src/container/tar/reader.rs",
         old="				let coord3 = TileCoord3::new(x, y, z)?;\n				bbox_pyramid.include_coord(&coord3);",
         new="				let coord3 = TileCoord3::new(x, y, z)?;\n				if length > 0 {\n					bbox_pyramid.include_coord(&coord3);\n				}",
         why="zero-length members are served by lookups (Some(empty)) but not advertised", ),
    dict(p="C03", id="vt-pyramid-first-block-only", file="versatiles_container/src/container/versatiles/types/block_index.rs",
         old="		for (_coord, block) in self.lookup.iter() {\n			pyramid.include_bbox(block.get_global_bbox());\n		}",
         new="		for (_coord, block) in self.lookup.iter() {\n			if pyramid.get_level_bbox(block.get_global_bbox().level).is_empty() {\n				pyramid.include_bbox(block.get_global_bbox());\n			}\n		}",
         why="only the first block of each level is included"),
    dict(p="C03", id="pm-scan-skips-run-tail", file="versatiles_container/src/container/pmtiles/reader.rs",
         old="for i in 0..entry.run_length as u64 {", new="for i in 0..(entry.run_length as u64).min(1) {",
         why="only the first tile of a run is advertised"),
    # ---------------------------------------------------------------- C04
    dict(p="C04", id="pipeline-run-reversed", file="versatiles_container/src/container/tile_converter.rs",
         old="		for f in self.pipeline.iter() {\n			blob = f.run(blob)?;", new="		for f in self.pipeline.iter().rev() {\n			blob = f.run(blob)?;",
         why="lookup path runs compress before decompress"),
    dict(p="C04", id="stream-skips-first-step", file="versatiles_container/src/container/tile_converter.rs",
         old="			for f in pipeline.iter() {\n				blob = f.run(blob).unwrap();", new="			for f in pipeline.iter().skip(1) {\n				blob = f.run(blob).unwrap();",
         why="stream path drops the decompression step"),
    dict(p="C04", id="force-and-instead-of-or", file="versatiles_container/src/container/tile_converter.rs",
         old="if force_recompress || (src_comp != dst_comp) {", new="if force_recompress && (src_comp != dst_comp) {",
         why="without force nothing is re-encoded although the declared compression changes"),
    dict(p="C04", id="recompressor-args-crossed", file="versatiles_container/src/container/converter.rs",
         old="			&rp.tile_compression,\n			&new_rp.tile_compression,", new="			&new_rp.tile_compression,\n			&rp.tile_compression,",
         why="recompressor built for target -> source"),
    dict(p="C04", id="declared-compression-not-updated", file="versatiles_container/src/container/converter.rs",
         old="new_rp.tile_compression = cp.tile_compression.unwrap_or(rp.tile_compression);", new="new_rp.tile_compression = rp.tile_compression;",
         why="requested target compression ignored in the declaration (and pipeline)", control=False),
    dict(p="C04", id="vt-meta-compressed-gzip-always", file="versatiles_container/src/container/versatiles/writer.rs",
         old="let compressed = compress(meta, &reader.get_parameters().tile_compression)?;", new="let compressed = compress(meta, &TileCompression::Gzip)?;",
         why="metadata encoded with gzip but the reader decodes it with the declared tile compression"),
    # ---------------------------------------------------------------- C05
    dict(p="C05", id="accept-crossed", file="versatiles/src/tools/server/tile_server.rs",
         old='		if encoding_string.contains("gzip") {\n			encoding_set.insert(TileCompression::Gzip);', new='		if encoding_string.contains("gzip") {\n			encoding_set.insert(TileCompression::Brotli);',
         why="client that accepts gzip is sent brotli"),
    dict(p="C05", id="content-encoding-crossed", file="versatiles/src/tools/server/tile_server.rs",
         old='Gzip => response = response.header(CONTENT_ENCODING, "gzip"),', new='Gzip => response = response.header(CONTENT_ENCODING, "br"),',
         why="gzip body labelled br"),
    dict(p="C05", id="lookup-error-is-400", file="versatiles/src/tools/server/sources/tile_source.rs",
         old="			if tile.is_err() {\n				return Ok(None);\n			}\n", new="",
         why="an error of the reader now propagates (400) instead of 404 — property says any other coordinate gives 404", ),
    dict(p="C05", id="source-compression-label-wrong", file="versatiles/src/tools/server/sources/tile_source.rs",
         old="Ok(SourceResponse::new_some(tile, &self.compression, &self.tile_mime))", new="Ok(SourceResponse::new_some(tile, &TileCompression::Uncompressed, &self.tile_mime))",
         why="stored compression not reported: compressed bytes are sent as identity"),
    # ---------------------------------------------------------------- C06
    dict(p="C06", id="cli-min-zoom-sets-max", file="versatiles/src/tools/convert.rs",
         old="		bbox_pyramid.set_zoom_min(min_zoom)", new="		bbox_pyramid.set_zoom_max(min_zoom)",
         why="--min-zoom wired to the upper limit"),
    dict(p="C06", id="cli-border-before-bbox", file="versatiles/src/tools/convert.rs",
         old="			bbox_pyramid.add_border(b, b, b, b);", new="			bbox_pyramid.add_border(b, b, 0, 0);",
         why="border only added on the min side"),
    dict(p="C06", id="cli-border-without-bbox-dropped", file="versatiles/src/tools/convert.rs",
         old="		bbox_pyramid.intersect_geo_bbox(&GeoBBox::try_from(values)?)?;\n", new="		let _ = GeoBBox::try_from(values)?;\n",
         why="--bbox parsed but never applied"),
    dict(p="C06", id="stream-out-map-only-when-both", file="versatiles_container/src/container/converter.rs",
         old="		if flip_y || swap_xy {\n			stream = stream.map_coord", new="		if flip_y && swap_xy {\n			stream = stream.map_coord",
         why="with a single flag streamed coordinates are not mapped back"),
    dict(p="C06", id="coverage-intersect-before-transform", file="versatiles_container/src/container/converter.rs",
         old="""		if cp.flip_y {
			new_rp.bbox_pyramid.flip_y();
		}
		if cp.swap_xy {
			new_rp.bbox_pyramid.swap_xy();
		}

		if let Some(bbox_pyramid) = &cp.bbox_pyramid {
			new_rp.bbox_pyramid.intersect(bbox_pyramid);
		}
""",
         new="""		if let Some(bbox_pyramid) = &cp.bbox_pyramid {
			new_rp.bbox_pyramid.intersect(bbox_pyramid);
		}

		if cp.flip_y {
			new_rp.bbox_pyramid.flip_y();
		}
		if cp.swap_xy {
			new_rp.bbox_pyramid.swap_xy();
		}
""",
         why="requested selection applied in source coordinates instead of output coordinates"),
    dict(p="C06", id="stream-no-recompress", file="versatiles_container/src/container/converter.rs",
         old="			stream = tile_recompressor.process_stream(stream);", new="			let _ = tile_recompressor;",
         why="(C04) stream path skips recompression", checks=["C04"]),
    # ---------------------------------------------------------------- C07
    dict(p="C07", id="guard-allows-parentdir", file="versatiles/src/tools/server/sources/static_source_folder.rs",
         old="			.any(|c| !matches!(c, Component::Normal(_) | Component::CurDir))", new="			.any(|c| !matches!(c, Component::Normal(_) | Component::CurDir | Component::ParentDir))",
         why="`..` components accepted again (lexical starts_with passes)"),
    dict(p="C07", id="guard-result-ignored", file="versatiles/src/tools/server/sources/static_source_folder.rs",
         old="""		{
			return None;
		}

		// If the path is a directory, append 'index.html'""", new="""		{
			log::warn!("suspicious path");
		}

		// If the path is a directory, append 'index.html'""",
         why="guard only logs"),
    dict(p="C07", id="guard-after-open", file="versatiles/src/tools/server/sources/static_source_folder.rs",
         old="		let mut local_path = url.as_path(&self.folder);\n", new="		let mut local_path = url.as_path(&self.folder);\n		let probe = File::open(&local_path).is_ok();\n		log::trace!(\"exists: {probe}\");\n",
         why="file outside the root is opened (existence oracle) before the guard; content is not returned -> control: property only speaks of returned content", control=True),
    dict(p="C07", id="as-path-absolute", file="versatiles/src/tools/server/utils/url.rs",
         old="		base.join(&self.str[1..])", new="		base.join(&self.str)",
         why="joining an absolute path replaces the base: /etc/passwd is served... (guard strip_prefix fails -> None) — guard still catches it: control", control=True),
    # ---------------------------------------------------------------- C20
    dict(p="C20", id="add-capacity-off-by-one", file="versatiles_core/src/types/limited_cache.rs",
         old="		if self.cache.len() >= self.max_length {", new="		if self.cache.len() > self.max_length {",
         why="cache grows to max_length + 1 entries"),
    dict(p="C20", id="cleanup-keeps-median", file="versatiles_core/src/types/limited_cache.rs",
         old="			if *idx <= median_index {", new="			if *idx < median_index {",
         why="with equal stamps (all survivors are reset to 0) nothing is evicted: capacity exceeded"),
    dict(p="C20", id="capacity-ignores-value-size", file="versatiles_core/src/types/limited_cache.rs",
         old="let per_element_size = size_of::<K>() + size_of::<V>();", new="let per_element_size = size_of::<K>();",
         why="byte budget divided by the key size only: more entries than the budget allows"),
    dict(p="C20", id="get-or-set-stores-under-default-key", file="versatiles_core/src/types/limited_cache.rs",
         old="		self.add(key.clone(), value);\n		Ok(cloned_value)", new="		Ok(self.add(key.clone(), value))",
         why="returns what the cache holds after add (or_insert keeps an older value if present) — equivalent here because get() missed: control", control=True),
    dict(p="C20", id="cleanup-upper-median", file="versatiles_core/src/types/limited_cache.rs",
         old="let median_index = indices[(indices.len() - 1).div(2)];", new="let median_index = indices[indices.len().div(2)];",
         why="F10 regression: with two entries the just-used one is evicted"),
    dict(p="C20", id="get-no-stamp-increment", file="versatiles_core/src/types/limited_cache.rs",
         old="			self.last_index += 1;\n			*old_index = self.last_index;\n			Some(value.clone())", new="			*old_index = self.last_index;\n			Some(value.clone())",
         why="a used entry gets the stamp of the last insertion, ties with it"),
    # ---------------------------------------------------------------- C09
    dict(p="C09", id="zoom-min-max-crossed", file="versatiles_pipeline/src/operations/transform/filter_zoom.rs",
         old="				parameters.bbox_pyramid.set_zoom_min(min);", new="				parameters.bbox_pyramid.set_zoom_max(min);",
         why="min= wired to the upper limit"),
    dict(p="C09", id="zoom-lookup-unguarded", file="versatiles_pipeline/src/operations/transform/filter_zoom.rs",
         old="		if self.parameters.bbox_pyramid.contains_coord(coord) {\n			self.source.get_tile_data(coord).await\n		} else {\n			Ok(None)\n		}",
         new="		self.source.get_tile_data(coord).await", why="lookups outside the retained zoom range pass"),
    dict(p="C09", id="zoom-stream-unclipped", file="versatiles_pipeline/src/operations/transform/filter_zoom.rs",
         old="		bbox.intersect_pyramid(&self.parameters.bbox_pyramid).unwrap();\n		self.source.get_tile_stream(bbox).await", new="		self.source.get_tile_stream(bbox).await",
         why="streams outside the retained range pass"),
    dict(p="C09", id="zoom-guard-uses-source-coverage", file="versatiles_pipeline/src/operations/transform/filter_zoom.rs",
         old="		if self.parameters.bbox_pyramid.contains_coord(coord) {", new="		if self.source.get_parameters().bbox_pyramid.contains_coord(coord) {",
         why="lookup guarded by the un-narrowed coverage of the source"),
    # ---------------------------------------------------------------- C10
    dict(p="C10", id="merge-replaces-layer", file="versatiles_pipeline/src/operations/read/from_vectortiles_merged.rs",
         old="				layer.add_from_layer(new_layer)?;", new="				*layer = new_layer;",
         why="later source replaces the layer instead of appending its features"),
    dict(p="C10", id="merge-lookup-skips-decompress", file="versatiles_pipeline/src/operations/read/from_vectortiles_merged.rs",
         old="				blob = decompress(blob, &source.get_parameters().tile_compression)?;\n				blobs.push(blob);", new="				blobs.push(blob);",
         why="compressed source tiles are parsed as raw MVT"),
    dict(p="C10", id="merge-stream-decompress-first-source", file="versatiles_pipeline/src/operations/read/from_vectortiles_merged.rs",
         old="						blob = decompress(blob, &source.get_parameters().tile_compression).unwrap();", new="						blob = decompress(blob, &self.sources[0].get_parameters().tile_compression).unwrap();",
         why="stream decodes every source with the first source's compression"),
    dict(p="C10", id="add-from-layer-keeps-tag-ids", file="versatiles_geometry/src/vector_tile/layer.rs",
         old="			let properties = layer.decode_tag_ids(&feature.tag_ids)?;\n			self.add_vector_tile_features(feature, properties);", new="			let _properties = layer.decode_tag_ids(&feature.tag_ids)?;\n			self.features.push(feature);",
         why="features keep tag ids of the other layer's tables"),
    dict(p="C10", id="add-from-layer-reversed", file="versatiles_geometry/src/vector_tile/layer.rs",
         old="		for feature in features {\n			let properties = layer.decode_tag_ids", new="		for feature in features.into_iter().rev() {\n			let properties = layer.decode_tag_ids",
         why="source order of features reversed"),
    # ---------------------------------------------------------------- C08
    dict(p="C08", id="lookup-continues-after-hit", file="versatiles_pipeline/src/operations/read/from_overlayed.rs",
         old="				return Ok(Some(blob));\n			}\n		}\n		return Ok(None);", new="				found = Some(blob);\n			}\n		}\n		return Ok(found);",
         why="last source with a tile wins (needs `let mut found = None;`)", edits=[("		for source in self.sources.iter() {\n			let result = source.get_tile_data(coord).await?;", "		let mut found = None;\n		for source in self.sources.iter() {\n			let result = source.get_tile_data(coord).await?;")]),
    dict(p="C08", id="stream-recompress-from-declared", file="versatiles_pipeline/src/operations/read/from_overlayed.rs",
         old="blob = recompress(blob, &source.get_parameters().tile_compression, output_compression).unwrap();", new="blob = recompress(blob, output_compression, output_compression).unwrap();",
         why="stream re-encodes from the overlay's own compression instead of the producing source's"),
    dict(p="C08", id="coverage-first-source-only", file="versatiles_pipeline/src/operations/read/from_overlayed.rs",
         old="				pyramid.include_bbox_pyramid(&parameters.bbox_pyramid);\n				ensure!(\n					parameters.tile_format == tile_format,", new="				ensure!(\n					parameters.tile_format == tile_format,",
         why="advertised coverage is the first source's only"),
    # ---------------------------------------------------------------- C03 (bounding union)
    dict(p="C03", id="include-bbox-xmax-min", file="versatiles_core/src/types/tile_bbox.rs", checks=["C03"],
         old="				self.x_max = self.x_max.max(bbox.x_max).min(self.max);\n				self.y_max = self.y_max.max(bbox.y_max).min(self.max);\n			}\n		}",
         new="				self.x_max = self.x_max.min(bbox.x_max).min(self.max);\n				self.y_max = self.y_max.max(bbox.y_max).min(self.max);\n			}\n		}",
         why="high x edge of the union is the smaller of the two"),
    dict(p="C03", id="include-bbox-no-adopt", file="versatiles_core/src/types/tile_bbox.rs", checks=["C03"],
         old="			if self.is_empty() {\n				// If current bounding box is empty, adopt the other bounding box\n				*self = bbox.clone();\n			} else {",
         new="			{",
         why="set_empty() encodes empty as x_min=1: min(1, b.x_min) keeps column 1 in the union of an emptied accumulator"),
    dict(p="C03", id="include-coord-y-from-x", file="versatiles_core/src/types/tile_bbox.rs", checks=["C03"],
         old="			self.y_max = self.y_max.max(y).min(self.max);\n		}\n	}", new="			self.y_max = self.y_max.max(x).min(self.max);\n		}\n	}",
         why="row edge extended by the column"),
    dict(p="C03", id="ctl-include-bbox-if-form", file="versatiles_core/src/types/tile_bbox.rs", checks=["C03", "C08", "C19", "C02"], control=True,
         old="				self.x_min = self.x_min.min(bbox.x_min);\n				self.y_min = self.y_min.min(bbox.y_min);\n				self.x_max = self.x_max.max(bbox.x_max).min(self.max);\n				self.y_max = self.y_max.max(bbox.y_max).min(self.max);\n			}\n		}",
         new="				if bbox.x_min < self.x_min {\n					self.x_min = bbox.x_min;\n				}\n				if bbox.x_max > self.x_max {\n					self.x_max = bbox.x_max;\n				}\n				self.y_min = std::cmp::min(self.y_min, bbox.y_min);\n				self.y_max = std::cmp::max(bbox.y_max, self.y_max);\n			}\n		}",
         why="same union written with independent ifs and cmp::min/max"),
    # ---------------------------------------------------------------- C01/C04 (pmtiles layout)
    dict(p="C01", id="pm-root-limit-doubled-in-builder", file=PM + "types/entries_v3.rs", checks=["C01", "C04"],
         old="			if d.root_bytes.len() <= target_root_len {\n				return Ok(d);", new="			if d.root_bytes.len() <= target_root_len * 2 {\n				return Ok(d);",
         why="the directory builder accepts a root directory twice as long as the reserved area"),
    dict(p="C01", id="pm-root-written-at-zero", file=PM + "writer.rs", checks=["C01", "C04"],
         old="		writer.set_position(HeaderV3::len())?;\n		let directory", new="		writer.set_position(0)?;\n		let directory",
         why="root directory written over the header area (header written last overwrites its first 127 bytes)"),
    dict(p="C01", id="ctl-pm-root-area-const", file=PM + "writer.rs", checks=["C01", "C04", "C12"], control=True,
         old="		writer.set_position(16384)?;\n", new="		const ROOT_AREA_END: u64 = 16384;\n		writer.set_position(ROOT_AREA_END)?;\n",
         edits=[("entries.as_directory(16384 - HeaderV3::len(), &INTERNAL_COMPRESSION)?", "entries.as_directory(ROOT_AREA_END - HeaderV3::len(), &INTERNAL_COMPRESSION)?")],
         why="magic number replaced by a constant, limit still leaves room for the header"),
    # ---------------------------------------------------------------- C07 (tar source key)
    dict(p="C07", id="tar-key-trim-slashes", file="versatiles/src/tools/server/sources/static_source_tar.rs", checks=["C07"],
         old="self.lookup.get(&url.str[1..])?", new="self.lookup.get(url.str.trim_start_matches('/'))?",
         why="`//x` and `///x` are answered like `/x`"),
    dict(p="C07", id="tar-key-lowercased", file="versatiles/src/tools/server/sources/static_source_tar.rs", checks=["C07"],
         old="self.lookup.get(&url.str[1..])?", new="self.lookup.get(&url.str[1..].replace(\"../\", \"\"))?",
         why="parent segments silently removed from the key"),
    dict(p="C07", id="ctl-tar-key-strip-prefix", file="versatiles/src/tools/server/sources/static_source_tar.rs", checks=["C07", "C05", "C19"], control=True,
         old="self.lookup.get(&url.str[1..])?", new="self.lookup.get(url.str.strip_prefix('/')?)?",
         why="single leading slash removed with strip_prefix"),
    dict(p="C07", id="ctl-tar-key-let", file="versatiles/src/tools/server/sources/static_source_tar.rs", checks=["C07", "C05", "C19"], control=True,
         old="		let file_entry = self.lookup.get(&url.str[1..])?.to_owned();", new="		let key: &str = &url.str[1..];\n		let file_entry = self.lookup.get(key)?.to_owned();",
         why="key bound to a local first"),
    # ---------------------------------------------------------------- C17 (merge)
    dict(p="C17", id="merge-skips-name", file="versatiles_core/src/tilejson/mod.rs", checks=["C17"],
         old='			if k != "minzoom" && k != "maxzoom" {\n				self.values.insert(&k, &v)?;', new='			if k != "minzoom" && k != "maxzoom" && k != "name" {\n				self.values.insert(&k, &v)?;',
         why="the stored document's name never reaches the reader's TileJSON"),
    dict(p="C17", id="merge-first-value-only", file="versatiles_core/src/tilejson/mod.rs", checks=["C17"],
         old="		for (k, v) in other.values.iter_json_values() {", new="		for (k, v) in other.values.iter_json_values().take(1) {",
         why="only one pass-through value of the stored document is kept"),
    dict(p="C17", id="merge-keeps-present-keys", file="versatiles_core/src/tilejson/mod.rs", checks=["C17"],
         old='			if k != "minzoom" && k != "maxzoom" {\n				self.values.insert(&k, &v)?;', new='			if k != "minzoom" && k != "maxzoom" && self.values.get_str(&k).is_none() {\n				self.values.insert(&k, &v)?;',
         why="present keys keep their value: default tilejson version survives"),
    dict(p="C17", id="ctl-merge-helper-overwrites", file="versatiles_core/src/tilejson/mod.rs", checks=["C17", "C19", "C08"], control=True,
         old='		for (k, v) in other.values.iter_json_values() {\n			if k != "minzoom" && k != "maxzoom" {\n				self.values.insert(&k, &v)?;\n			}\n		}\n',
         new='		self.values.extend_from(&other.values, &["minzoom", "maxzoom"])?;\n',
         edits=[("	/// Returns a reference to the inner `str` value if this key exists as a string variant,", "	pub fn extend_from(&mut self, other: &TileJsonValues, skip: &[&str]) -> Result<()> {\n		for (k, v) in other.iter_json_values() {\n			if !skip.contains(&k.as_str()) {\n				self.insert(&k, &v)?;\n			}\n		}\n		Ok(())\n	}\n\n	/// Returns a reference to the inner `str` value if this key exists as a string variant,", "versatiles_core/src/tilejson/value.rs")],
         why="step 4 moved into a helper that still overwrites"),
    # ---------------------------------------------------------------- C19 (reviewed decode sites keep their witnesses)
    dict(p="C19", id="blob-read-range-guard-on-offset-only", file="versatiles_core/src/types/blob.rs", checks=["C19"],
         old="		if range.offset.saturating_add(range.length) > self.0.len() as u64 {", new="		if range.offset > self.0.len() as u64 {",
         why="offset + length of a decoded range may overflow in as_range_usize / slice out of bounds"),
    dict(p="C19", id="http-read-range-unchecked-again", file="versatiles_core/src/io/data_reader_http.rs", checks=["C19"],
         old="		let Some(range_end) = range.offset.checked_add(range.length - 1) else {\n			bail!(\"range {range:?} exceeds the addressable size\");\n		};",
         new="		let range_end = range.offset + (range.length - 1);",
         why="F17 returns"),
    dict(p="C19", id="add-offset-unchecked-again", file="versatiles_container/src/container/versatiles/types/tile_index.rs", checks=["C19"],
         old="r.offset = r.offset.saturating_add(offset)", new="r.offset += offset", why="F18 returns"),
    # ---------------------------------------------------------------- more controls (behaviour-preserving rewrites of anchored code)
    dict(p="C04", id="ctl-recompress-no-temporaries", file="versatiles_core/src/utils/compression.rs", control=True, checks=["C04", "C08", "C05", "C19"],
         old="	let recompressed = compress(decompressed, output_compression)\n		.with_context(|| format!(\"Failed to compress using {:?}\", output_compression))?;\n	Ok(recompressed)",
         new="	compress(decompressed, output_compression).with_context(|| format!(\"Failed to compress using {:?}\", output_compression))",
         why="result returned directly instead of through a temporary"),
    dict(p="C04", id="ctl-optimize-gzip-arm-reordered", file="versatiles_core/src/utils/compression.rs", control=True, checks=["C04", "C05"],
         old="			// Fallback to Uncompressed if Gzip is not allowed\n			let decompressed = decompress_gzip(&blob).context(\"Failed to decompress Gzip blob\")?;\n			Ok((decompressed, TileCompression::Uncompressed))",
         new="			// Fallback to Uncompressed if Gzip is not allowed\n			Ok((\n				decompress_gzip(&blob).context(\"Failed to decompress Gzip blob\")?,\n				TileCompression::Uncompressed,\n			))",
         why="tuple built in place"),
    dict(p="C05", id="ctl-tile-source-match-result", file="versatiles/src/tools/server/sources/tile_source.rs", control=True, checks=["C05", "C19"],
         old="			// If tile data is not found, return a not found response\n			if tile.is_err() {\n				return Ok(None);\n			}\n\n			// If tile data is not found, return a not found response\n			return if let Some(tile) = tile? {\n				Ok(SourceResponse::new_some(tile, &self.compression, &self.tile_mime))\n			} else {\n				Ok(None)\n			};",
         new="			return match tile {\n				Ok(Some(tile)) => Ok(SourceResponse::new_some(tile, &self.compression, &self.tile_mime)),\n				Ok(None) | Err(_) => Ok(None),\n			};",
         why="is_err / ? / if-let rewritten as one match with the same outcomes"),
    dict(p="C05", id="ctl-tile-source-parts-slice-pattern", file="versatiles/src/tools/server/sources/tile_source.rs", control=True, checks=["C05", "C19"],
         old="			let z = parts[0].parse::<u8>();\n			let x = parts[1].parse::<u32>();",
         new="			let (pz, px) = (&parts[0], &parts[1]);\n			let z = pz.parse::<u8>();\n			let x = px.parse::<u32>();",
         why="parts bound to locals first"),
    dict(p="C06", id="ctl-converter-lookup-flags-bound", file="versatiles_container/src/container/converter.rs", control=True, checks=["C06", "C02", "C19", "C05"],
         old="		let mut coord = *coord;\n		if self.converter_parameters.swap_xy {\n			coord.swap_xy();\n		}\n		if self.converter_parameters.flip_y {\n			coord.flip_y();\n		}\n		let mut blob",
         new="		let mut coord = *coord;\n		let params = &self.converter_parameters;\n		if params.swap_xy {\n			coord.swap_xy();\n		}\n		if params.flip_y {\n			coord.flip_y();\n		}\n		let mut blob",
         why="converter parameters bound to a local first"),
    dict(p="C06", id="ctl-converter-stream-no-outer-if", file="versatiles_container/src/container/converter.rs", control=True, checks=["C06", "C02"],
         old="		if flip_y || swap_xy {\n			stream = stream.map_coord(move |mut coord| {\n				if flip_y {\n					coord.flip_y()\n				}\n				if swap_xy {\n					coord.swap_xy()\n				}\n				coord\n			});\n		}",
         new="		stream = stream.map_coord(move |mut coord| {\n			if flip_y {\n				coord.flip_y()\n			}\n			if swap_xy {\n				coord.swap_xy()\n			}\n			coord\n		});",
         why="map_coord applied unconditionally (identity when no flag is set)"),
    dict(p="C06", id="ctl-bbox-flip-without-swap-call", file="versatiles_core/src/utils/transform_coord.rs", control=True, checks=["C06", "C02", "C03"],
         old="			self.y_min = self.max - self.y_min;\n			self.y_max = self.max - self.y_max;\n			swap(&mut self.y_min, &mut self.y_max);",
         new="			let (lo, hi) = (self.max - self.y_max, self.max - self.y_min);\n			self.y_min = lo;\n			self.y_max = hi;",
         why="flipped bounds computed directly in order"),
    dict(p="C06", id="bbox-flip-no-reorder", file="versatiles_core/src/utils/transform_coord.rs", checks=["C06", "C02", "C03"],
         old="			swap(&mut self.y_min, &mut self.y_max);\n", new="",
         why="flipped box keeps min/max in the wrong order (empty box): the flipped stream request selects nothing"),
    dict(p="C06", id="bbox-swap-max-only", file="versatiles_core/src/utils/transform_coord.rs", checks=["C06", "C02", "C03"],
         old="			swap(&mut self.x_min, &mut self.y_min);\n			swap(&mut self.x_max, &mut self.y_max);", new="			swap(&mut self.x_max, &mut self.y_max);",
         why="only the max corner is transposed"),
    dict(p="C06", id="pyramid-flip-skips-level0", file="versatiles_core/src/utils/transform_coord.rs", checks=["C06"],
         old="	fn flip_y(&mut self) {\n		self.level_bbox.iter_mut().for_each(|b| {", new="	fn flip_y(&mut self) {\n		self.level_bbox.iter_mut().skip(1).for_each(|b| {",
         why="level 0 keeps its rows (harmless for level 0 itself: one tile) — still a missing level in the rule's terms; kept as a detection of the adaptor"),
    dict(p="C05", id="static-handler-fresh-target", file="versatiles/src/tools/server/tile_server.rs", checks=["C05"],
         old="					return ok_data(result, target_compressions);", new="					return ok_data(result, TargetCompression::from_set(TileCompression::Gzip | TileCompression::Uncompressed));",
         why="static files are answered with gzip regardless of what the client listed"),
    dict(p="C05", id="ok-data-adds-gzip", file="versatiles/src/tools/server/tile_server.rs", checks=["C05"],
         old="	let (blob, compression) = optimize_compression(result.blob, &result.compression, &target_compressions)",
         new="	target_compressions.insert(TileCompression::Gzip);\n	let (blob, compression) = optimize_compression(result.blob, &result.compression, &target_compressions)",
         why="gzip always allowed"),
    dict(p="C11", id="ctl-runner-fast-path-decompressed", file="versatiles_pipeline/src/operations/transform/vectortiles_update_properties.rs", control=True, checks=["C11", "C02", "C19"],
         old="		let layer_name = &self.args.layer_name;\n\n		for layer in tile.layers.iter_mut() {",
         new="		let layer_name = &self.args.layer_name;\n\n		if tile.layers.iter().all(|layer| &layer.name != layer_name) {\n			return Ok(Some(blob));\n		}\n\n		for layer in tile.layers.iter_mut() {",
         why="tiles without the named layer are handed on as the DECOMPRESSED input (blob was reassigned by decompress): still what the stage declares"),
    dict(p="C11", id="runner-recompresses-output", file="versatiles_pipeline/src/operations/transform/vectortiles_update_properties.rs", checks=["C11"],
         old="		Ok(Some(tile.to_blob().context(\"Failed to convert VectorTile to Blob\")?))",
         new="		Ok(Some(versatiles_core::utils::compress(tile.to_blob().context(\"Failed to convert VectorTile to Blob\")?, &self.tile_compression)?))",
         why="output re-compressed with the source's compression while the stage declares Uncompressed"),
    dict(p="C10", id="ctl-merge-tiles-match-form", file="versatiles_pipeline/src/operations/read/from_vectortiles_merged.rs", control=True, checks=["C10", "C02", "C19"],
         old="			if let Some(layer) = layers.get_mut(&new_layer.name) {\n				layer.add_from_layer(new_layer)?;\n			} else {\n				layers.insert(new_layer.name.clone(), new_layer);\n			}",
         new="			match layers.get_mut(&new_layer.name) {\n				Some(layer) => layer.add_from_layer(new_layer)?,\n				None => {\n					layers.insert(new_layer.name.clone(), new_layer);\n				}\n			}",
         why="if-let rewritten as match"),
    dict(p="C10", id="ctl-merge-tiles-plain-for", file="versatiles_pipeline/src/operations/read/from_vectortiles_merged.rs", control=True, checks=["C10", "C02"],
         old="	for blob in blobs.into_iter() {\n		let tile = VectorTile::from_blob(&blob)?;", new="	for blob in blobs {\n		let tile = VectorTile::from_blob(&blob)?;",
         why="explicit into_iter() dropped"),
    dict(p="C19", id="ctl-bbox-new-guard-as-if", file="versatiles_core/src/types/tile_bbox.rs", control=True, checks=["C19", "C02", "C05", "C09"],
         old="	pub fn new(level: u8, x_min: u32, y_min: u32, x_max: u32, y_max: u32) -> Result<TileBBox> {\n		ensure!(level <= 31, \"level ({level}) must be <= 31\");",
         new="	pub fn new(level: u8, x_min: u32, y_min: u32, x_max: u32, y_max: u32) -> Result<TileBBox> {\n		if level > 31 {\n			anyhow::bail!(\"level ({level}) must be <= 31\");\n		}",
         why="ensure! written as if/bail with the negated comparison"),
    dict(p="C16", id="ctl-tar-reader-first-iflet", file="versatiles_container/src/container/tar/reader.rs", control=True, checks=["C16", "C03", "C19", "C01"],
         old="			if path_tmp.first() == Some(&\".\") {\n				path_tmp.remove(0);\n			}", new="			if let Some(&\".\") = path_tmp.first() {\n				path_tmp.remove(0);\n			}",
         why="comparison written as if-let pattern"),
    dict(p="C18", id="ctl-parse-value-array-first", file="versatiles_pipeline/src/vpl/parser.rs", control=True, checks=["C18", "C19"],
         old="			parse_quoted_string.map(|v| vec![v]),\n			parse_unquoted_value.map(|v| vec![v]),\n			parse_array,",
         new="			parse_array,\n			parse_quoted_string.map(|v| vec![v]),\n			parse_unquoted_value.map(|v| vec![v]),",
         why="the three value forms start with different characters ('[', '\"', word): the order of the alternatives is irrelevant"),
    dict(p="C18", id="ctl-parse-string-escape-order", file="versatiles_pipeline/src/vpl/parser.rs", control=True, checks=["C18", "C19"],
         old="				value(\"\\\\\", tag(\"\\\\\")),\n				value(\"\\\"\", tag(\"\\\"\")),\n				value(\"\\n\", tag(\"n\")),\n				value(\"\\t\", tag(\"t\")),",
         new="				value(\"\\n\", tag(\"n\")),\n				value(\"\\t\", tag(\"t\")),\n				value(\"\\\\\", tag(\"\\\\\")),\n				value(\"\\\"\", tag(\"\\\"\")),",
         why="escape alternatives are disjoint single characters: order irrelevant"),
    dict(p="C13", id="ctl-tar-reader-plain-field", file="versatiles_container/src/container/tar/reader.rs", control=True, checks=["C13", "C03", "C16"],
         old="	parameters: TilesReaderParameters,\n}\n\nimpl TarTilesReader {", new="	parameters: TilesReaderParameters,\n	#[allow(dead_code)]\n	member_count: usize,\n}\n\nimpl TarTilesReader {",
         edits=[("			parameters,\n			reader,\n			tile_map,\n		})", "			parameters,\n			reader,\n			member_count: tile_map.len(),\n			tile_map,\n		})")],
         why="an immutable plain field is no shared mutable state"),
    dict(p="C13", id="tar-reader-cell-counter", file="versatiles_container/src/container/tar/reader.rs", checks=["C13"],
         old="	parameters: TilesReaderParameters,\n}\n\nimpl TarTilesReader {", new="	parameters: TilesReaderParameters,\n	last: std::sync::Mutex<Option<(TileCoord3, Blob)>>,\n}\n\nimpl TarTilesReader {",
         edits=[("			parameters,\n			reader,\n			tile_map,\n		})", "			parameters,\n			reader,\n			last: std::sync::Mutex::new(None),\n			tile_map,\n		})")],
         why="new shared mutable state in a reader type must be reviewed (memo of the last tile)"),
    dict(p="C02", id="ctl-vt-stream-filter-split", file=V + "reader.rs", control=True, checks=["C02", "C16", "C19"],
         old="					.filter(|(coord, range)| tiles_bbox_used.contains3(coord) && (range.length > 0))",
         new="					.filter(|(_, range)| range.length > 0)\n					.filter(|(coord, _)| tiles_bbox_used.contains3(coord))",
         why="one filter split into two"),
    dict(p="C02", id="ctl-vt-stream-sort-unstable", file=V + "reader.rs", control=True, checks=["C02"],
         old="				tile_ranges.sort_by_key(|e| e.1.offset);", new="				tile_ranges.sort_unstable_by(|a, b| a.1.offset.cmp(&b.1.offset));",
         why="same order by offset, different sort call"),
    dict(p="C02", id="ctl-vt-stream-slice-direct", file=V + "reader.rs", control=True, checks=["C02", "C19"],
         old="								let tile_range = (start as usize)..(end as usize);\n\n								let blob = Blob::from(big_blob.get_range(tile_range));",
         new="								let blob = Blob::from(big_blob.get_range((start as usize)..(end as usize)));",
         why="range literal inlined"),
    dict(p="C19", id="ctl-csv-width-get-or-insert", file="versatiles_core/src/utils/csv.rs", control=True, checks=["C19", "C09", "C11"],
         old="			if let Some(len) = option_len {\n				if fields.len() != len {\n					bail!(\"At byte {byte_pos}: line {line_pos} has different number of fields\");\n				}\n			} else {\n				option_len = Some(fields.len());\n			}",
         new="			let len = *option_len.get_or_insert(fields.len());\n			if fields.len() != len {\n				bail!(\"At byte {byte_pos}: line {line_pos} has different number of fields\");\n			}",
         why="first row's width remembered with get_or_insert: still compared with the first row"),
    dict(p="C18", id="ctl-bare-value-take-while-ascii", file="versatiles_pipeline/src/vpl/parser.rs", control=True, checks=["C18", "C19"],
         old="		recognize(many1(alt((alphanumeric1, recognize(one_of(\".-_\")))))),", new="		take_while1(|c: char| c.is_ascii_alphanumeric() || \".-_\".contains(c)),",
         why="same ASCII class written as one take_while1 (unused imports only warn)"),
    dict(p="C12", id="mb-writer-ignores-insert-error", file="versatiles_container/src/container/mbtiles/writer.rs", checks=["C12"],
         old="					writer.add_tiles(&v).unwrap();", new="					let _ = writer.add_tiles(&v);",
         why="a failed batch insert is ignored; the file is finished and opens with tiles missing"),
    dict(p="C12", id="ctl-vt-writer-append-match", file=V + "writer.rs", control=True, checks=["C12", "C01"],
         old="		writer.append(&compressed)\n	}", new="		match writer.append(&compressed) {\n			Ok(range) => Ok(range),\n			Err(e) => Err(e.context(\"writing metadata\")),\n		}\n	}",
         why="error handled explicitly with a match that still returns Err"),
    # ---------------------------------------------------------------- controls for the rules that came out of the automatic mutation sweep
    dict(p="C01", id="ctl-tar-writer-for-each", file="versatiles_container/src/container/tar/writer.rs", control=True, checks=["C01", "C12", "C04"],
         old="				// Build header\n				let mut header = Header::new_gnu();\n				header.set_size(blob.len());\n				header.set_mode(0o644);\n",
         new="				// Build header\n				let size = blob.len();\n				let mut header = Header::new_gnu();\n				header.set_mode(0o644);\n				header.set_size(size);\n",
         why="size taken into a local, header calls reordered"),
    dict(p="C01", id="ctl-vt-write-blocks-guard-form", file=V + "writer.rs", control=True, checks=["C01", "C12"],
         old="			if tiles_range.length + index_range.length == 0 {\n				// Block is empty, continue with the next block\n				continue;\n			}",
         new="			if tiles_range.length == 0 && index_range.length == 0 {\n				// Block is empty, continue with the next block\n				continue;\n			}",
         why="emptiness written as two comparisons"),
    dict(p="C02", id="ctl-bbox-intersect-cmp-form", file="versatiles_core/src/types/tile_bbox.rs", control=True, checks=["C02", "C03", "C09"],
         old="			self.x_min = self.x_min.max(bbox.x_min);\n			self.y_min = self.y_min.max(bbox.y_min);\n			self.x_max = self.x_max.min(bbox.x_max);\n			self.y_max = self.y_max.min(bbox.y_max);",
         new="			self.x_min = std::cmp::max(self.x_min, bbox.x_min);\n			self.y_min = std::cmp::max(bbox.y_min, self.y_min);\n			self.x_max = std::cmp::min(self.x_max, bbox.x_max);\n			self.y_max = std::cmp::min(bbox.y_max, self.y_max);",
         why="cmp::max / cmp::min with operands in either order"),
    dict(p="C02", id="ctl-bbox-contains-reordered", file="versatiles_core/src/types/tile_bbox.rs", control=True, checks=["C02", "C03", "C09"],
         old="		coord.x >= self.x_min && coord.x <= self.x_max && coord.y >= self.y_min && coord.y <= self.y_max\n	}",
         new="		self.y_min <= coord.y && coord.y <= self.y_max && self.x_min <= coord.x && coord.x <= self.x_max\n	}",
         why="same four comparisons, reordered and flipped"),
    dict(p="C16", id="ctl-mb-lookup-guard-ge", file="versatiles_container/src/container/mbtiles/reader.rs", control=True, checks=["C16", "C05", "C02", "C19"],
         old="		if coord.y > max_index {", new="		if max_index < coord.y {",
         why="guard written with the operands exchanged"),
    dict(p="C17", id="ctl-merge-zoom-cmp-form", file="versatiles_core/src/tilejson/mod.rs", control=True, checks=["C17", "C08"],
         old="map_or(omin, |mz| mz.min(omin));", new="map_or(omin, |mz| omin.min(mz));",
         why="min with operands exchanged"),
    dict(p="C09", id="ctl-filter-zoom-match-options", file="versatiles_pipeline/src/operations/transform/filter_zoom.rs", control=True, checks=["C09", "C02"],
         old="			if let Some(min) = args.min {\n				parameters.bbox_pyramid.set_zoom_min(min);\n			}",
         new="			if let Some(level) = args.min {\n				parameters.bbox_pyramid.set_zoom_min(level);\n			}",
         why="binding renamed"),
    dict(p="C05", id="ctl-server-push-after-log", file="versatiles/src/tools/server/tile_server.rs", control=True, checks=["C05"],
         old="		self.tile_sources.push(source);\n\n		Ok(())", new="		log::debug!(\"{} tile source(s) so far\", self.tile_sources.len());\n		self.tile_sources.push(source);\n\n		Ok(())",
         why="extra log line"),
    dict(p="C10", id="ctl-decode-tags-chunks", file="versatiles_geometry/src/vector_tile/property_manager.rs", control=True, checks=["C10", "C11", "C19"],
         old="			let tag_key = tag_ids[i * 2];\n			let tag_val = tag_ids[i * 2 + 1];", new="			let tag_key = tag_ids[2 * i];\n			let tag_val = tag_ids[2 * i + 1];",
         why="2 * i instead of i * 2"),
    # ================================================================ behaviour-preserving refactors (controls: every check must stay silent)
    dict(p="C03", id="ctl-mb-rename-locals", file="versatiles_container/src/container/mbtiles/reader.rs", control=True, checks=["C03", "C16", "C02"],
         old="PLACEHOLDER", new="PLACEHOLDER", why="rename y0/y1/x0/x1 in get_bbox_pyramid", regex=[(r"\by0\b", "row_lo"), (r"\by1\b", "row_hi"), (r"\bx0\b", "col_lo"), (r"\bx1\b", "col_hi")]),
    dict(p="C09", id="ctl-zoom-lookup-early-return", file="versatiles_pipeline/src/operations/transform/filter_zoom.rs", control=True, checks=["C09", "C02"],
         old="		if self.parameters.bbox_pyramid.contains_coord(coord) {\n			self.source.get_tile_data(coord).await\n		} else {\n			Ok(None)\n		}",
         new="		if !self.parameters.bbox_pyramid.contains_coord(coord) {\n			return Ok(None);\n		}\n		self.source.get_tile_data(coord).await",
         why="guard written as early return"),
    dict(p="C08", id="ctl-overlay-lookup-match", file="versatiles_pipeline/src/operations/read/from_overlayed.rs", control=True, checks=["C08", "C02"],
         old="			if let Some(mut blob) = result {\n				blob = recompress(\n					blob,\n					&source.get_parameters().tile_compression,\n					&self.parameters.tile_compression,\n				)?;\n				return Ok(Some(blob));\n			}",
         new="			if let Some(blob) = result {\n				let blob = recompress(\n					blob,\n					&source.get_parameters().tile_compression,\n					&self.parameters.tile_compression,\n				)?;\n				return Ok(Some(blob));\n			}",
         why="shadowing instead of mut"),
    dict(p="C01", id="ctl-vt-writer-rename", file="versatiles_container/src/container/versatiles/writer.rs", control=True, checks=["C01", "C12", "C04"],
         old="PLACEHOLDER", new="PLACEHOLDER", why="rename offset0/offset1/tile_index in write_block", regex=[(r"\boffset0\b", "block_start"), (r"\boffset1\b", "block_end"), (r"\btile_hash_lookup\b", "seen")]),
    dict(p="C02", id="ctl-vt-stream-rename", file="versatiles_container/src/container/versatiles/reader.rs", control=True, checks=["C02", "C16", "C19", "C13"],
         old="PLACEHOLDER", new="PLACEHOLDER", why="rename locals of the chunked stream", regex=[(r"\btiles_bbox_block\b", "block_box"), (r"\btiles_bbox_used\b", "wanted"), (r"\btile_ranges\b", "entries_in_box"), (r"\bbig_blob\b", "chunk_bytes")]),
    dict(p="C20", id="ctl-cache-get-match", file="versatiles_core/src/types/limited_cache.rs", control=True, checks=["C20"],
         old="		if let Some((value, old_index)) = self.cache.get_mut(key) {\n			self.last_index += 1;\n			*old_index = self.last_index;\n			Some(value.clone())\n		} else {\n			None\n		}",
         new="		match self.cache.get_mut(key) {\n			Some((value, old_index)) => {\n				self.last_index += 1;\n				*old_index = self.last_index;\n				Some(value.clone())\n			}\n			None => None,\n		}",
         why="if-let rewritten as match"),
    dict(p="C20", id="ctl-cache-add-early-cleanup", file="versatiles_core/src/types/limited_cache.rs", control=True, checks=["C20"],
         old="		if self.cache.len() >= self.max_length {\n			self.cleanup();\n		}\n\n		self.last_index += 1;", new="		self.last_index += 1;\n		if self.cache.len() >= self.max_length {\n			self.cleanup();\n		}\n",
         why="stamp incremented before the cleanup (independent statements reordered)"),
    dict(p="C01", id="ctl-block-size-const", file="versatiles_container/src/container/versatiles/types/block_definition.rs", control=True, checks=["C01", "C16", "C19"],
         old="PLACEHOLDER", new="PLACEHOLDER", why="literal 256 replaced by a named constant in block_definition.rs",
         regex=[(r"\b256u32\b", "BLOCK_SIZE"), (r"\* 256\b", "* BLOCK_SIZE"), (r"^(use [^\n]*;\n)", r"\1\nconst BLOCK_SIZE: u32 = 256;\n")], regex_count={2: 1}),
    dict(p="C01", id="ctl-writer-trace-lines", file="versatiles_container/src/container/versatiles/writer.rs", control=True, checks=["C01", "C12", "C04", "C02"],
         old='		trace!("write blocks");', new='		trace!("write blocks");\n		log::debug!("writer position before blocks: {:?}", writer.get_position());',
         why="extra logging that reads the writer position"),
    dict(p="C12", id="ctl-pm-writer-message", file="versatiles_container/src/container/pmtiles/writer.rs", control=True, checks=["C12", "C01", "C04"],
         old='"converting tiles"', new='"converting tiles to pmtiles"', why="progress message changed"),
    dict(p="C08", id="ctl-overlay-lookup-iterator", file="versatiles_pipeline/src/operations/read/from_overlayed.rs", control=True, checks=["C08", "C02", "C03"],
         old="		for source in self.sources.iter() {\n			let result = source.get_tile_data(coord).await?;", new="		for source in &self.sources {\n			let result = source.get_tile_data(coord).await?;",
         why="`for x in &v` instead of `v.iter()`"),
    dict(p="C20", id="ctl-cache-doc-and-assert", file="versatiles_core/src/types/limited_cache.rs", control=True, checks=["C20", "C19"],
         old="		self.last_index += 1;\n		// Insert or replace.", new="		self.last_index += 1;\n		debug_assert!(self.max_length >= 1);\n		// Insert or replace.",
         why="debug assertion added"),
    dict(p="C07", id="ctl-static-trace", file="versatiles/src/tools/server/sources/static_source_folder.rs", control=True, checks=["C07", "C05"],
         old="		let mime = guess_mime(&local_path);", new="		log::trace!(\"serving {:?}\", local_path);\n		let mime = guess_mime(&local_path);",
         why="trace line printing the path"),
    dict(p="C14", id="ctl-parallel-rename-closure-args", file="versatiles_core/src/types/tile_stream.rs", control=True, checks=["C14"],
         old="PLACEHOLDER", new="PLACEHOLDER", why="rename arc_cb / cb in the parallel operators", regex=[(r"\barc_cb\b", "shared_callback"), (r"\bcb\b", "callback_ref")]),
    # ---------------------------------------------------------------- C11
    dict(p="C11", id="run-all-layers", file="versatiles_pipeline/src/operations/transform/vectortiles_update_properties.rs",
         old="			if &layer.name != layer_name {\n				continue;\n			}\n", new="",
         why="every layer is updated, not only the named one"),
    dict(p="C11", id="run-replace-merge-crossed", file="versatiles_pipeline/src/operations/transform/vectortiles_update_properties.rs",
         old="						if self.args.replace_properties {\n							prop = new_prop.clone();\n						} else {\n							prop.update(new_prop);\n						}",
         new="						if self.args.replace_properties {\n							prop.update(new_prop);\n						} else {\n							prop = new_prop.clone();\n						}",
         why="merge and replace exchanged"),
    dict(p="C11", id="run-remove-when-id-missing", file="versatiles_pipeline/src/operations/transform/vectortiles_update_properties.rs",
         old='					warn!("id field \\"{}\\" not found", &self.args.id_field_tiles);', new='					warn!("id field \\"{}\\" not found", &self.args.id_field_tiles);\n					return None;',
         why="features without the id field are dropped regardless of remove_non_matching"),
    dict(p="C11", id="fmp-reverses-features", file="versatiles_geometry/src/vector_tile/layer.rs",
         old="		let feature_prop_list = features\n			.into_iter()\n			.filter_map(|feature: VectorTileFeature| match self.decode_tag_ids(&feature.tag_ids) {",
         new="		let feature_prop_list = features\n			.into_iter()\n			.rev()\n			.filter_map(|feature: VectorTileFeature| match self.decode_tag_ids(&feature.tag_ids) {",
         why="order of retained features reversed"),
    dict(p="C11", id="fmp-drops-on-decode-error", file="versatiles_geometry/src/vector_tile/layer.rs",
         old="				Err(error) => Some(Err(error)),\n			})\n			.collect::<Result<Vec<(VectorTileFeature, GeoProperties)>>>()?;\n\n		self.property_manager = PropertyManager::from_iter(feature_prop_list.iter().map(|(_, p)| p));\n\n		self.features = feature_prop_list\n			.into_iter()\n			.map(|(mut f, p)| {\n				f.tag_ids = self.encode_tag_ids(p);\n				Ok(f)\n			})\n			.collect::<Result<Vec<VectorTileFeature>>>()?;\n\n		Ok(())\n	}\n\n	pub fn map_properties",
         new="				Err(_error) => None,\n			})\n			.collect::<Result<Vec<(VectorTileFeature, GeoProperties)>>>()?;\n\n		self.property_manager = PropertyManager::from_iter(feature_prop_list.iter().map(|(_, p)| p));\n\n		self.features = feature_prop_list\n			.into_iter()\n			.map(|(mut f, p)| {\n				f.tag_ids = self.encode_tag_ids(p);\n				Ok(f)\n			})\n			.collect::<Result<Vec<VectorTileFeature>>>()?;\n\n		Ok(())\n	}\n\n	pub fn map_properties",
         why="a feature whose tags cannot be decoded silently disappears (control-ish: input invalid) ", control=True),
    # ---------------------------------------------------------------- C17
    dict(p="C17", id="limit-min-zoom-uses-min", file="versatiles_core/src/tilejson/mod.rs",
         old='		self.values.update_byte("minzoom", |mz| mz.map_or(z, |mz| mz.max(z)));', new='		self.values.update_byte("minzoom", |mz| mz.map_or(z, |mz| mz.min(z)));',
         why="minzoom widened instead of narrowed"),
    dict(p="C17", id="limit-bbox-extends", file="versatiles_core/src/tilejson/mod.rs",
         old="			b.intersect(&bbox);\n		} else {\n			self.bounds = Some(bbox);", new="			b.extend(&bbox);\n		} else {\n			self.bounds = Some(bbox);",
         why="bounds widened to the union"),
    dict(p="C17", id="update-pyramid-zoom-crossed", file="versatiles_core/src/tilejson/mod.rs",
         old="		if let Some(z) = pyramid.get_zoom_min() {\n			self.limit_min_zoom(z);", new="		if let Some(z) = pyramid.get_zoom_max() {\n			self.limit_min_zoom(z);",
         why="minzoom limited by the coverage's max zoom"),
    dict(p="C17", id="tilesjson-template-xy-crossed", file="versatiles/src/tools/server/sources/tile_source.rs",
         old='format!("{}{{z}}/{{x}}/{{y}}", self.prefix.as_string())', new='format!("{}{{z}}/{{y}}/{{x}}", self.prefix.as_string())',
         why="tiles URL template with x and y exchanged"),
    dict(p="C17", id="tilesjson-not-narrowed", file="versatiles/src/tools/server/sources/tile_source.rs",
         old="		tilejson.update_from_pyramid(&parameters.bbox_pyramid);\n", new="",
         why="served tiles.json bounds/zoom not consistent with the coverage"),
    dict(p="C17", id="escape-cr-as-n", file="versatiles_core/src/json/stringify.rs",
         old="\t\t\t'\\r' => \"\\\\r\".to_string(),", new="\t\t\t'\\r' => \"\\\\n\".to_string(),", why="carriage return escaped as \\n"),
    # ---------------------------------------------------------------- C14
    dict(p="C14", id="map-parallel-swallows-join-error", file="versatiles_core/src/types/tile_stream.rs",
         old='			.buffer_unordered(num_cpus::get())\n			.map(|e| e.expect("spawned task panicked"));', new='			.buffer_unordered(num_cpus::get())\n			.filter_map(|e| async move { e.ok() });',
         why="a failed task silently drops its tile (one output per input is violated) — for map, not filter_map"),
    dict(p="C14", id="buffered-flush-drops-last-of-full", file="versatiles_core/src/types/tile_stream.rs",
         old="				callback(buffer);\n				buffer = Vec::with_capacity(buffer_size);", new="				buffer = Vec::with_capacity(buffer_size);",
         why="full buffers are discarded instead of handed to the callback (compile: callback unused? still used below)"),
    dict(p="C14", id="buffered-final-flush-only-when-full", file="versatiles_core/src/types/tile_stream.rs",
         old="		if !buffer.is_empty() {\n			callback(buffer);\n		}", new="		if buffer.len() >= buffer_size {\n			callback(buffer);\n		}",
         why="the remainder after the loop is lost"),
    dict(p="C14", id="ctl-map-parallel-ordered", file="versatiles_core/src/types/tile_stream.rs", control=True,
         old='			.buffer_unordered(num_cpus::get())\n			.map(|e| e.expect("spawned task panicked"));', new='			.buffered(num_cpus::get())\n			.map(|e| e.expect("spawned task panicked"));',
         why="order-preserving buffering is also correct"),
    # ---------------------------------------------------------------- C18
    dict(p="C18", id="pipeline-separator-comma", file="versatiles_pipeline/src/vpl/parser.rs",
         old="			separated_list1(char('|'), parse_node).map(VPLPipeline::new),", new="			separated_list1(one_of(\"|,\"), parse_node).map(VPLPipeline::new),",
         why="',' accepted as operation separator (text outside the syntax is accepted; clashes with source lists)"),
    dict(p="C18", id="sources-separator-pipe", file="versatiles_pipeline/src/vpl/parser.rs",
         old="			separated_list0(char(','), parse_pipeline),", new="			separated_list0(char(';'), parse_pipeline),",
         why="documented ',' between nested pipelines is no longer accepted"),
    dict(p="C18", id="node-ignores-sources", file="versatiles_pipeline/src/vpl/parser.rs",
         old="				sources: children,", new="				sources: Vec::new(),",
         why="nested pipelines are parsed and dropped"),
    dict(p="C18", id="property-first-value-only", file="versatiles_pipeline/src/vpl/vpl_node.rs",
         old="				list.len() == 1,", new="				!list.is_empty(),",
         why="a parameter with several entries is accepted for a scalar (first wins) instead of being rejected"),
    dict(p="C18", id="escape-t-is-space", file="versatiles_pipeline/src/vpl/parser.rs",
         old='				value("\\t", tag("t")),', new='				value(" ", tag("t")),',
         why="\\t in a quoted string decodes to a space"),
    # ---------------------------------------------------------------- C19
    dict(p="C19", id="varint-guard-too-late", file="versatiles_core/src/io/value_reader.rs",
         old="			if shift >= 70 {", new="			if shift >= 77 {",
         why="shift reaches 70 > 63 before the guard: shift overflow panic on an 11-byte varint"),
    dict(p="C19", id="read-blob-no-remaining-check", file="versatiles_core/src/io/value_reader.rs",
         old="	fn read_blob(&mut self, length: u64) -> Result<Blob> {\n		if length > self.remaining() {\n			bail!(\"cannot read {length} bytes, only {} bytes remaining\", self.remaining());\n		}\n",
         new="	fn read_blob(&mut self, length: u64) -> Result<Blob> {\n",
         why="announced length allocated without comparing it with the remaining input"),
    dict(p="C19", id="blob-read-range-no-guard", file="versatiles_core/src/types/blob.rs",
         old="		if range.offset.saturating_add(range.length) > self.0.len() as u64 {\n			bail!(\"read outside range\")\n		}\n", new="",
         why="a directory entry pointing beyond the leaf bytes panics in slice indexing", checks=["C19", "C02", "C05"]),
    dict(p="C19", id="tar-dot-remove-unguarded", file="versatiles_container/src/container/tar/reader.rs",
         old='			if path_tmp.first() == Some(&".") {\n				path_tmp.remove(0);\n			}', new='			path_tmp.remove(0);',
         why="Vec::remove(0) on an empty component list panics (member named `/`?) and drops the first component of every name", checks=["C19", "C16", "C01"]),
    dict(p="C08", id="ctl-overlay-extract-recompress-helper", file="versatiles_pipeline/src/operations/read/from_overlayed.rs", control=True, checks=["C08", "C02", "C04"],
         old="""				blob = recompress(
					blob,
					&source.get_parameters().tile_compression,
					&self.parameters.tile_compression,
				)?;
				return Ok(Some(blob));""",
         new="""				blob = self.to_output(source.as_ref(), blob)?;
				return Ok(Some(blob));""",
         edits=[("pub struct Factory {}", "impl Operation {\n	fn to_output(&self, source: &dyn OperationTrait, blob: Blob) -> Result<Blob> {\n		recompress(\n			blob,\n			&source.get_parameters().tile_compression,\n			&self.parameters.tile_compression,\n		)\n	}\n}\n\npub struct Factory {}")],
         why="the re-encoding of the lookup path moved into a private helper method"),
    dict(p="C01", id="ctl-writer-extract-header-helper", file="versatiles_container/src/container/versatiles/writer.rs", control=True, checks=["C01", "C12", "C04"],
         old="""		trace!("update header");
		let blob: Blob = header.to_blob()?;
		writer.write_start(&blob)?;
""",
         new="""		trace!("update header");
		Self::commit_header(&header, writer)?;
""",
         edits=[("impl VersaTilesWriter {\n	/// Write metadata to the writer.", "impl VersaTilesWriter {\n	fn commit_header(header: &FileHeader, writer: &mut dyn DataWriterTrait) -> Result<()> {\n		let blob: Blob = header.to_blob()?;\n		writer.write_start(&blob)?;\n		Ok(())\n	}\n\n	/// Write metadata to the writer.")],
         why="the final header write moved into a private helper"),
    # ---------------------------------------------------------------- C01 (mbtiles / tar)
    dict(p="C01", id="mb-writer-no-flip", file="versatiles_container/src/container/mbtiles/writer.rs", checks=["C01", "C02"],
         old="				params![c.z, c.x, max_index - c.y, blob.as_slice()],", new="				params![c.z, c.x, c.y, blob.as_slice()],",
         why="rows written in XYZ while the reader flips (TMS)"),
    dict(p="C01", id="mb-writer-columns-crossed", file="versatiles_container/src/container/mbtiles/writer.rs", checks=["C01", "C02"],
         old='"INSERT INTO tiles (zoom_level, tile_column, tile_row, tile_data) VALUES (?1, ?2, ?3, ?4)"', new='"INSERT INTO tiles (zoom_level, tile_row, tile_column, tile_data) VALUES (?1, ?2, ?3, ?4)"',
         why="column and row exchanged in the INSERT"),
    dict(p="C01", id="mb-writer-or-ignore", file="versatiles_container/src/container/mbtiles/writer.rs", checks=["C01"],
         old='"INSERT INTO tiles (zoom_level, tile_column, tile_row, tile_data) VALUES (?1, ?2, ?3, ?4)"', new='"INSERT OR IGNORE INTO tiles (zoom_level, tile_column, tile_row, tile_data) VALUES (?1, ?2, ?3, ?4)"',
         why="harmless for a well-formed source (no duplicate coordinates): control", control=True),
    dict(p="C01", id="mb-writer-last-level-only", file="versatiles_container/src/container/mbtiles/writer.rs", checks=["C01"],
         old="		for bbox in pyramid.iter_levels() {\n			let stream = reader.get_bbox_tile_stream(bbox.clone()).await;\n\n			stream\n				.for_each_buffered(2000, |v| {",
         new="		for bbox in pyramid.iter_levels().skip(1) {\n			let stream = reader.get_bbox_tile_stream(bbox.clone()).await;\n\n			stream\n				.for_each_buffered(2000, |v| {",
         why="the lowest stored level is never written"),
    dict(p="C01", id="tar-writer-xy-crossed", file="versatiles_container/src/container/tar/writer.rs", checks=["C01"],
         old="					coord.z, coord.x, coord.y, extension_format, extension_compression", new="					coord.z, coord.y, coord.x, extension_format, extension_compression",
         why="member names z/y/x instead of z/x/y"),
    dict(p="C10", id="pbf-string-prefix-counts-chars", file="versatiles_core/src/io/value_writer.rs", checks=["C10", "C11"],
         old="			.write_varint(text.len() as u64)", new="			.write_varint(text.chars().count() as u64)",
         why="length prefix counts characters, not bytes: every non-ASCII key/value/layer name truncates the message"),
    dict(p="C10", id="pbf-blob-prefix-after-payload", file="versatiles_core/src/io/value_writer.rs", checks=["C10"],
         old="""		self
			.write_varint(blob.len())
			.context("Failed to write varint for blob length")?;
		self.write_blob(blob).context("Failed to write PBF blob")""",
         new="""		self.write_blob(blob).context("Failed to write PBF blob")?;
		self
			.write_varint(blob.len())
			.context("Failed to write varint for blob length")""",
         why="length written after the payload"),
    dict(p="C10", id="ctl-pbf-packed-iter-deref", file="versatiles_core/src/io/value_writer.rs", control=True, checks=["C10", "C11"],
         old="		for &value in data {\n			writer\n				.write_varint(value as u64)", new="		for value in data.iter() {\n			writer\n				.write_varint(*value as u64)",
         why="iterate by reference"),
    dict(p="C10", id="ctl-pbf-blob-direct-length", file="versatiles_core/src/io/value_reader.rs", control=True, checks=["C10", "C11"],
         old="""		let length = self.read_varint().context("Failed to read varint for blob length")?;
		self.read_blob(length).context("Failed to read PBF blob")""",
         new="""		let n = self.read_varint().context("Failed to read varint for blob length")?;
		self.read_blob(n).context("Failed to read PBF blob")""",
         why="rename the length local"),
    dict(p="C06", id="ctl-convert-passthrough-all-fields", file="versatiles_container/src/container/converter.rs", control=True, checks=["C06", "C04"],
         old="""			swap_xy: false,
		}
	}
}

/// Converts tiles from a given reader and writes them to a file.
pub async fn convert_tiles_container(
	reader: Box<dyn TilesReaderTrait>,
	cp: TilesConverterParameters,
	filename: &str,
) -> Result<()> {
""",
         new="""			swap_xy: false,
		}
	}

	fn is_passthrough(&self, source: &TilesReaderParameters) -> bool {
		self.bbox_pyramid.is_none()
			&& !self.force_recompress
			&& !self.flip_y
			&& !self.swap_xy
			&& self.tile_compression.map_or(true, |c| c == source.tile_compression)
	}
}

/// Converts tiles from a given reader and writes them to a file.
pub async fn convert_tiles_container(
	mut reader: Box<dyn TilesReaderTrait>,
	cp: TilesConverterParameters,
	filename: &str,
) -> Result<()> {
	if cp.is_passthrough(reader.get_parameters()) {
		return write_to_filename(reader.as_mut(), filename).await;
	}
""",
         why="a shortcut that looks at every conversion parameter writes the same tiles as the converter would"),
    dict(p="C03", id="vt-reader-coverage-clipped-to-header", file="versatiles_container/src/container/versatiles/reader.rs", checks=["C03"],
         old="		let bbox_pyramid = block_index.get_bbox_pyramid();\n", new="		let mut bbox_pyramid = block_index.get_bbox_pyramid();\n		bbox_pyramid.set_zoom_max(header.zoom_range[1]);\n",
         why="advertised coverage clipped by a header field instead of being the union of the stored blocks"),
    dict(p="C05", id="server-prefix-guard-one-direction", file="versatiles/src/tools/server/tile_server.rs", checks=["C05"],
         old="if other_prefix.starts_with(url_prefix) || url_prefix.starts_with(other_prefix) {", new="if other_prefix.starts_with(url_prefix) {",
         why="adding `a/3` after `a` is accepted: overlapping routes"),
    dict(p="C05", id="ctl-server-prefix-guard-any", file="versatiles/src/tools/server/tile_server.rs", control=True, checks=["C05"],
         old="""		for other_tile_source in self.tile_sources.iter() {
			let other_prefix = &other_tile_source.prefix;
			if other_prefix.starts_with(url_prefix) || url_prefix.starts_with(other_prefix) {
				bail!("multiple sources with the prefix '{url_prefix}' and '{other_prefix}' are defined");
			};
		}
""",
         new="""		if self
			.tile_sources
			.iter()
			.any(|o| o.prefix.starts_with(url_prefix) || url_prefix.starts_with(&o.prefix))
		{
			bail!("multiple sources overlap with the prefix '{url_prefix}'");
		}
""",
         why="same guard written with any()"),
    dict(p="C02", id="default-stream-skips-first-coord", file="versatiles_core/src/types/tiles_reader.rs", checks=["C02"],
         old="let coords: Vec<TileCoord3> = bbox.iter_coords().collect();", new="let coords: Vec<TileCoord3> = bbox.iter_coords().skip(1).collect();",
         why="first coordinate of every box never looked up"),
    dict(p="C09", id="intersect-pyramid-wrong-level", file="versatiles_core/src/types/tile_bbox.rs", checks=["C09"],
         old="let pyramid_bbox = pyramid.get_level_bbox(self.level);", new="let pyramid_bbox = pyramid.get_level_bbox(self.level.saturating_sub(1));",
         why="request boxes are clipped with the box of the level above"),
    dict(p="C09", id="ctl-intersect-pyramid-inline", file="versatiles_core/src/types/tile_bbox.rs", control=True, checks=["C09", "C02"],
         old="		let pyramid_bbox = pyramid.get_level_bbox(self.level);\n		self.intersect_bbox(pyramid_bbox)", new="		self.intersect_bbox(pyramid.get_level_bbox(self.level))",
         why="inline the local"),
    dict(p="C18", id="vpl-array-no-space-before-comma", file="versatiles_pipeline/src/vpl/parser.rs", checks=["C18"],
         old="				(multispace0, char(','), multispace0),", new="				(char(','), multispace0),",
         why="`key=[a ,b]` is rejected: whitespace before a comma in a list value"),
    dict(p="C18", id="vpl-string-escape-r-added", file="versatiles_pipeline/src/vpl/parser.rs", checks=["C18"],
         old='				value("\\t", tag("t")),', new='				value("\\t", tag("t")),\n				value("\\r", tag("r")),',
         why="accepts an escape outside the documented set"),
    dict(p="C18", id="ctl-vpl-array-nested-delimited", file="versatiles_pipeline/src/vpl/parser.rs", control=True, checks=["C18"],
         old="""		delimited(
			(char('['), multispace0),
			separated_list0(
				(multispace0, char(','), multispace0),
				alt((parse_quoted_string, parse_unquoted_value)),
			),
			(multispace0, char(']')),
		),""",
         new="""		delimited(
			char('['),
			delimited(
				multispace0,
				separated_list0(
					delimited(multispace0, char(','), multispace0),
					alt((parse_quoted_string, parse_unquoted_value)),
				),
				multispace0,
			),
			char(']'),
		),""",
         why="same language, combinators nested differently"),
    dict(p="C18", id="ctl-vpl-pipeline-map-outside", file="versatiles_pipeline/src/vpl/parser.rs", control=True, checks=["C18"],
         old="""		delimited(
			multispace0,
			separated_list1(char('|'), parse_node).map(VPLPipeline::new),
			multispace0,
		),""",
         new="""		delimited(
			multispace0,
			separated_list1(char('|'), parse_node),
			multispace0,
		)
		.map(VPLPipeline::new),""",
         why="map moved outwards"),
    dict(p="C17", id="vector-layer-merge-minzoom-max", file="versatiles_core/src/tilejson/vector_layer.rs", checks=["C17"],
         old="				Some(m) => m.min(other_min),", new="				Some(m) => m.max(other_min),",
         why="merged layer advertises the larger minzoom"),
    dict(p="C17", id="ctl-vector-layer-merge-map-or", file="versatiles_core/src/tilejson/vector_layer.rs", control=True, checks=["C17"],
         old="""			self.minzoom = Some(match self.minzoom {
				Some(m) => m.min(other_min),
				None => other_min,
			});""",
         new="""			self.minzoom = Some(self.minzoom.map_or(other_min, |m| m.min(other_min)));""",
         why="same combination written with map_or"),
    dict(p="C17", id="ctl-vector-layer-merge-max-default", file="versatiles_core/src/tilejson/vector_layer.rs", control=True, checks=["C17"],
         old="""			self.maxzoom = Some(match self.maxzoom {
				Some(m) => m.max(other_max),
				None => other_max,
			});""",
         new="""			self.maxzoom = Some(self.maxzoom.unwrap_or_default().max(other_max));""",
         why="0 is neutral for max on u8"),
    dict(p="C10", id="geovalue-derived-ieee-eq", file="versatiles_geometry/src/geo/value.rs", checks=["C10", "C11"],
         old="#[derive(Clone)]\npub enum GeoValue {", new="#[derive(Clone, PartialEq)]\npub enum GeoValue {",
         why="F19 re-introduced: IEEE equality on a hash key whose hash uses the bit pattern",
         edits=[("""impl PartialEq for GeoValue {
	fn eq(&self, other: &Self) -> bool {
		self.cmp(other) == Ordering::Equal
	}
}
""", "")]),
    dict(p="C11", id="csv-double-pattern-optional-dot", file="versatiles_geometry/src/geo/value.rs", checks=["C11"],
         old='r"^\\-?\\d*\\.\\d+$"', new='r"^\\-?\\d*\\.?\\d+$"',
         why="integers are typed as Double (checked first): 7 becomes 7.0 and renders as a different join key"),
    dict(p="C11", id="ctl-csv-double-pattern-rewritten", file="versatiles_geometry/src/geo/value.rs", control=True, checks=["C11"],
         old='r"^\\-?\\d*\\.\\d+$"', new='r"^-?[0-9]*[.][0-9]+$"',
         why="the same language written differently"),
    dict(p="C09", id="ctl-geobbox-check-negative-form", file="versatiles_core/src/types/geo_bbox.rs", control=True, checks=["C09", "C06", "C19"],
         old="""		ensure!(self.0 >= -180., "x_min ({}) must be >= -180", self.0);
		ensure!(self.1 >= -90., "y_min ({}) must be >= -90", self.1);
		ensure!(self.2 <= 180., "x_max ({}) must be <= 180", self.2);
		ensure!(self.3 <= 90., "y_max ({}) must be <= 90", self.3);
		ensure!(self.0 <= self.2, "x_min ({}) must be <= x_max ({})", self.0, self.2);
		ensure!(self.1 <= self.3, "y_min ({}) must be <= y_max ({})", self.1, self.3);""",
         new="""		let (x_min, y_min, x_max, y_max) = self.as_tuple();
		if x_min < -180. || y_min < -90. || x_max > 180. || y_max > 90. {
			anyhow::bail!("{self:?} must be within [-180, -90, 180, 90]");
		}
		if x_min > x_max || y_min > y_max {
			anyhow::bail!("{self:?} must be ordered as [x_min, y_min, x_max, y_max]");
		}""",
         why="check() alone lets NaN pass, but TileCoord2::from_geo still rejects it: the filter path is unchanged"),
    dict(p="C09", id="geobbox-nan-passes-both-guards", file="versatiles_core/src/types/geo_bbox.rs", checks=["C09"],
         old="""		ensure!(self.0 >= -180., "x_min ({}) must be >= -180", self.0);
		ensure!(self.1 >= -90., "y_min ({}) must be >= -90", self.1);
		ensure!(self.2 <= 180., "x_max ({}) must be <= 180", self.2);
		ensure!(self.3 <= 90., "y_max ({}) must be <= 90", self.3);
		ensure!(self.0 <= self.2, "x_min ({}) must be <= x_max ({})", self.0, self.2);
		ensure!(self.1 <= self.3, "y_min ({}) must be <= y_max ({})", self.1, self.3);""",
         new="""		ensure!(!(self.0 < -180.), "x_min ({}) must be >= -180", self.0);
		ensure!(!(self.1 < -90.), "y_min ({}) must be >= -90", self.1);
		ensure!(!(self.2 > 180.), "x_max ({}) must be <= 180", self.2);
		ensure!(!(self.3 > 90.), "y_max ({}) must be <= 90", self.3);
		ensure!(!(self.0 > self.2), "x_min ({}) must be <= x_max ({})", self.0, self.2);
		ensure!(!(self.1 > self.3), "y_min ({}) must be <= y_max ({})", self.1, self.3);""",
         why="negated range tests accept NaN; second edit removes the other guard",
         edits=[("""		ensure!(x >= -180., "x must be >= -180");
		ensure!(x <= 180., "x must be <= 180");
		ensure!(y >= -90., "y must be >= -90");
		ensure!(y <= 90., "y must be <= 90");
""", "", "versatiles_core/src/types/tile_coords.rs")]),
    dict(p="C16", id="pm-tileid-digit-order", file="versatiles_container/src/container/pmtiles/types/tile_id.rs", checks=["C16", "C01"],
         old="		d += s * s * ((3 * rx) ^ ry) as i64;", new="		d += s * s * ((2 * rx) ^ ry) as i64;",
         why="quadrant digits 0,1,2,3 in Z order instead of Hilbert order (own reader unchanged: ids of foreign archives map to wrong tiles)"),
    dict(p="C16", id="ctl-pm-tileid-digit-if-form", file="versatiles_container/src/container/pmtiles/types/tile_id.rs", control=True, checks=["C16", "C01", "C19"],
         old="		d += s * s * ((3 * rx) ^ ry) as i64;", new="		let digit: i64 = if rx == 1 { 3 - ry as i64 } else { ry as i64 };\n		d += digit * s * s;",
         why="the same digit table written with a branch"),
    # ---------------------------------------------------------------- refactored AND broken: the spelling the second reading
    # (normalize.py) and the generalised rules accept, with the defect inside it
    dict(p="C10", id="merged-push-form-raw-blob", file="versatiles_pipeline/src/operations/read/from_vectortiles_merged.rs", checks=["C10"],
         old="""				blob = decompress(blob, &source.get_parameters().tile_compression)?;
				blobs.push(blob);""",
         new="""				let _decoded = decompress(blob.clone(), &source.get_parameters().tile_compression)?;
				blobs.push(blob);""",
         why="the decompressed copy is thrown away, the still-compressed blob is merged"),
    dict(p="C10", id="tags-chunks-exact-swapped", file="versatiles_geometry/src/vector_tile/property_manager.rs", checks=["C10", "C11"],
         old="""		for i in 0..tag_ids.len().div(2) {
			let tag_key = tag_ids[i * 2];
			let tag_val = tag_ids[i * 2 + 1];""",
         new="""		for pair in tag_ids.chunks_exact(2) {
			let tag_key = pair[1];
			let tag_val = pair[0];""",
         why="chunked spelling of the pair loop with key and value index swapped",
         edits=[("use std::{collections::HashMap, fmt::Debug, hash::Hash, ops::Div};", "use std::{collections::HashMap, fmt::Debug, hash::Hash};")]),
    dict(p="C08", id="overlay-chain-collects-found-tiles", file="versatiles_pipeline/src/operations/read/from_overlayed.rs", checks=["C08", "C02"],
         old="""				for (index, t) in tiles.iter().enumerate() {
					if t.is_none() {
						bbox_left
							.include_coord3(&bbox.get_coord3_by_index(index as u32).unwrap())
							.unwrap();
					}
				}""",
         new="""				tiles
					.iter()
					.enumerate()
					.filter(|(_, t)| t.is_some())
					.map(|(index, _)| bbox.get_coord3_by_index(index as u32).unwrap())
					.for_each(|coord| bbox_left.include_coord3(&coord).unwrap());""",
         why="iterator-chain spelling with the filter inverted: the next source is asked for the tiles that were already found"),
    dict(p="C06", id="lookup-helper-forgets-swap", file="versatiles_container/src/container/converter.rs", checks=["C06", "C03"],
         old="""		let mut coord = *coord;
		if self.converter_parameters.swap_xy {
			coord.swap_xy();
		}
		if self.converter_parameters.flip_y {
			coord.flip_y();
		}""",
         new="""		let mut coord = *coord;
		if self.converter_parameters.flip_y {
			coord.flip_y();
		}""",
         why="the lookup no longer undoes swap_xy (control C06_1 moves these lines into a helper; this is the defect the D4 rule exists for)"),
    dict(p="C16", id="pm-tileid-base-sum-wrong-power", file="versatiles_container/src/container/pmtiles/types/tile_id.rs", checks=["C16", "C01"],
         old="""	let mut acc: i64 = 0;
	for t_z in 0..(z as i64) {
		acc += 1i64 << (t_z * 2)
	}""",
         new="""	let acc: i64 = (0..(z as i64)).map(|t_z| 1i64 << (t_z * 2 + 1)).sum();""",
         why="iterator spelling of the level base with the wrong power of two"),
    dict(p="C18", id="unknown-op-match-defaults", file="versatiles_pipeline/src/factory.rs", checks=["C18"],
         old="""			.ok_or_else(|| anyhow!("read operation '{}' unknown", node.name))?;""",
         new="""			.unwrap_or_else(|| self.read_ops.values().next().unwrap());""",
         why="an unknown read operation silently becomes the first registered one"),
    dict(p="C05", id="status-match-err-is-404", file="versatiles/src/tools/server/tile_server.rs", checks=["C05"],
         old="""				if let Ok(Some(response)) = response {
					log::info!("send response for tile request: {path}");
					ok_data(response, target_compressions)
				} else if let Err(err) = response {
					log::warn!("send 400 for tile request: {path}. Reason: {err}");
					error_400()
				} else {
					log::warn!("send 404 for tile request: {path}");
					error_404()
				}""",
         new="""				match response {
					Ok(Some(response)) => {
						log::info!("send response for tile request: {path}");
						ok_data(response, target_compressions)
					}
					Err(err) => {
						log::warn!("send 404 for tile request: {path}. Reason: {err}");
						error_404()
					}
					Ok(None) => {
						log::warn!("send 400 for tile request: {path}");
						error_400()
					}
				}""",
         why="match spelling with the 400 / 404 answers exchanged"),
]
