#!/usr/bin/env python3
"""Development helper for the false-alarm campaign: takes the behaviour-preserving refactorings an independent sub-agent left in
/tmp/wt_R<id>/SEED/refactor_N.diff, applies each one to /repo's working tree, runs ALL checks (quick tier), undoes it, and files the
refactoring under /verif/controls/<id>_<n>/ (patch.diff, meta.json with the per-check outcome).  A check that reports a violation on a
refactoring is a false alarm (or the refactoring is not behaviour-preserving after all: triage by hand).
usage: tools_refactor.py <id> [--keep]        e.g. tools_refactor.py C07
       tools_refactor.py --rerun [names]      re-run the filed controls against the current checks"""
import glob
import json
import os
import re
import shutil
import subprocess
import sys

HERE = os.path.dirname(os.path.abspath(__file__))
REPO = "/repo"
ALL = ["C01", "C02", "C03", "C04", "C05", "C06", "C07", "C08", "C09", "C10", "C11", "C12", "C13", "C14", "C16", "C17", "C18", "C19", "C20"]


def sh(cmd, cwd=None):
    r = subprocess.run(cmd, shell=True, cwd=cwd, stdout=subprocess.PIPE, stderr=subprocess.STDOUT, text=True, env=dict(os.environ, CARGO_NET_OFFLINE="true", VT_NO_SELFTEST="1"))
    return r.returncode, r.stdout


def run_checks(patch):
    rc, out = sh("git -C %s apply --check %s" % (REPO, patch))
    if rc != 0:
        return {"applies": False, "why": out[-300:]}
    sh("git -C %s apply %s" % (REPO, patch))
    res = {"applies": True, "checks": {}}
    try:
        only = [x for x in os.environ.get("VT_CHECKS", "").split(",") if x]
        pids = only or ALL

        def one(pid):
            rc, out = sh("./vt check %s" % pid, cwd=HERE)
            viol = re.findall(r"^  violation (\S+)", out, re.M)
            r_ = {"exit": rc, "violations": viol[:6]}
            if rc not in (0, 1):
                r_["tail"] = out[-300:]
            return pid, r_
        # the first check extracts the facts of the patched tree; the others reuse them and run side by side
        first = one(pids[0])
        res["checks"][first[0]] = first[1]
        from concurrent.futures import ThreadPoolExecutor
        with ThreadPoolExecutor(max_workers=8) as ex:
            for pid, r_ in ex.map(one, pids[1:]):
                res["checks"][pid] = r_
        res["checks"] = {p_: res["checks"][p_] for p_ in pids}
    finally:
        sh("git -C %s checkout -- ." % REPO)
        sh("git -C %s clean -fdq -- versatiles versatiles_core versatiles_container versatiles_pipeline versatiles_geometry versatiles_derive" % REPO)
    return res


def main():
    if sys.argv[1] == "--rerun":
        only = set(sys.argv[2:])
        tot = bad = 0
        for d in sorted(glob.glob(os.path.join(HERE, "controls", "*"))):
            nm = os.path.basename(d)
            if only and nm not in only:
                continue
            res = run_checks(os.path.join(d, "patch.diff"))
            m = json.load(open(os.path.join(d, "meta.json")))
            if not os.environ.get("VT_CHECKS"):
                m["result"] = res
                json.dump(m, open(os.path.join(d, "meta.json"), "w"), indent=1)
            alarms = {p: c["violations"] for p, c in res.get("checks", {}).items() if c["exit"] != 0}
            tot += 1
            bad += 1 if alarms else 0
            print("%-10s %s" % (nm, ("ALARM %s" % alarms) if alarms else ("silent" if res["applies"] else "does not apply")))
        print("controls %d, alarms %d" % (tot, bad))
        return
    rid = sys.argv[1]
    wt = "/tmp/wt_R" + rid
    meta = json.load(open(os.path.join(wt, "SEED", "meta.json")))
    descr = {r["file"]: r for r in meta.get("refactorings", [])}
    for pf in sorted(glob.glob(os.path.join(wt, "SEED", "refactor_*.diff"))):
        n = re.search(r"refactor_(\d+)", pf).group(1)
        res = run_checks(pf)
        alarms = {p: c["violations"] for p, c in res.get("checks", {}).items() if c["exit"] != 0}
        dst = os.path.join(HERE, "controls", "%s_%s" % (rid, n))
        os.makedirs(dst, exist_ok=True)
        shutil.copy(pf, os.path.join(dst, "patch.diff"))
        d = dict(descr.get(os.path.basename(pf), {}))
        d.update({"property": rid, "result": res})
        json.dump(d, open(os.path.join(dst, "meta.json"), "w"), indent=1)
        print("%s_%s %-28s %s" % (rid, n, (d.get("kind") or "")[:28], ("ALARM %s" % alarms) if alarms else ("silent" if res["applies"] else "DOES NOT APPLY")))
    if "--keep" not in sys.argv:
        sh("git -C %s worktree remove --force %s" % (REPO, wt))
        shutil.rmtree(wt, ignore_errors=True)


if __name__ == "__main__":
    main()
