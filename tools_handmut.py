#!/usr/bin/env python3
"""Development helper: hand-written source mutants (one textual edit each) applied to /repo's working tree, the check of
the property they break is run, and the edit is undone.  Unlike /verif/seeded these carry no demonstration; they probe
the sensitivity of the rules.  usage: tools_handmut.py [<mutant-id-substring> ...]   (list: handmut/mutants.py)"""
import importlib.util
import json
import os
import re
import subprocess
import sys

HERE = os.path.dirname(os.path.abspath(__file__))
REPO = "/repo"


def sh(cmd, cwd=None):
    r = subprocess.run(cmd, shell=True, cwd=cwd, stdout=subprocess.PIPE, stderr=subprocess.STDOUT, text=True, env=dict(os.environ, CARGO_NET_OFFLINE="true", VT_NO_SELFTEST="1"))
    return r.returncode, r.stdout


def main():
    spec = importlib.util.spec_from_file_location("mutants", os.path.join(HERE, "handmut", "mutants.py"))
    mod = importlib.util.module_from_spec(spec)
    spec.loader.exec_module(mod)
    force = "--force" in sys.argv
    sel = [a for a in sys.argv[1:] if a != "--force"]
    res_p = os.path.join(HERE, "handmut", "results.json")
    results = json.load(open(res_p)) if os.path.exists(res_p) else {}
    rc, st = sh("git -C %s status --porcelain --untracked-files=no" % REPO)
    if st.strip():
        print("/repo working tree is not clean")
        sys.exit(2)
    for m in mod.MUTANTS:
        mid = "%s/%s" % (m["p"], m["id"])
        if sel and not any(s in mid for s in sel):
            continue
        if not sel and not force and mid in results and results[mid].get("hash") == hash_of(m):
            continue
        path = os.path.join(REPO, m["file"])
        src = open(path).read()
        if m.get("regex"):
            import re as _re
            new = src
            for i_, (pat, rep) in enumerate(m["regex"]):
                new = _re.sub(pat, rep, new, count=m.get("regex_count", {}).get(i_, 0), flags=_re.M)
            m = dict(m, old=src, new=new)
        if src.count(m["old"]) != 1:
            print("%-40s SKIP: anchor text occurs %d times" % (mid, src.count(m["old"])))
            results[mid] = {"result": "skipped (anchor text occurs %d times)" % src.count(m["old"]), "hash": hash_of(m)}
            continue
        try:
            new = src.replace(m["old"], m["new"])
            for ed in m.get("edits", ()):
                o, n = ed[0], ed[1]
                if len(ed) == 3:           # edit in another file
                    p2 = os.path.join(REPO, ed[2])
                    s2 = open(p2).read()
                    assert s2.count(o) == 1, o
                    open(p2, "w").write(s2.replace(o, n))
                    continue
                assert new.count(o) == 1, o
                new = new.replace(o, n)
            open(path, "w").write(new)
            det = {}
            for pid in m.get("checks", [m["p"]]):
                rc, out = sh("./vt check %s" % pid, cwd=HERE)
                viol = re.findall(r"^  violation (\S+)", out, re.M)
                det[pid] = {"exit": rc, "violations": viol[:5]}
                if rc == 2:
                    det[pid]["tail"] = out[-400:]
        finally:
            sh("git -C %s checkout -- ." % (REPO,))
        hit = [p for p, d in det.items() if d["exit"] == 1]
        broken = [p for p, d in det.items() if d["exit"] not in (0, 1)]
        r = "detected" if hit else ("BUILD-BROKEN" if broken else "MISSED")
        if m.get("control"):
            r = "FALSE-ALARM" if hit else ("BUILD-BROKEN" if broken else "silent (control)")
        results[mid] = {"result": r, "why": m["why"], "file": m["file"], "checks": det, "hash": hash_of(m)}
        print("%-40s %s %s" % (mid, r, [v for d in det.values() for v in d["violations"]][:2]))
        json.dump(results, open(res_p, "w"), indent=1, sort_keys=True)
    json.dump(results, open(res_p, "w"), indent=1, sort_keys=True)
    tot = [r for r in results.values() if r["result"] in ("detected", "MISSED")]
    print("detected %d / %d" % (sum(r["result"] == "detected" for r in tot), len(tot)))


def hash_of(m):
    import hashlib
    return hashlib.sha1((m["file"] + "\0" + m["old"] + "\0" + m["new"] + repr(m.get("regex"))).encode()).hexdigest()[:12]


if __name__ == "__main__":
    main()
