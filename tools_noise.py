#!/usr/bin/env python3
"""Writes tables/normalised_reference.json: for every property and every normalised reading (guard x inline) the violation keys and
anchor counts the rules produce on the CURRENT tree's reading.  Run only on a tree on which every check passes on the program as
written (the reference tree): what a normalised reading reports there is noise of that reading, not a defect."""
import importlib
import json
import os
import sys

HERE = os.path.dirname(os.path.abspath(__file__))
sys.path.insert(0, os.path.join(HERE, "engine"))
from rules import facts, ir, normalize, report  # noqa: E402

ALL = ["C01", "C02", "C03", "C04", "C05", "C06", "C07", "C08", "C09", "C10", "C11", "C12", "C13", "C14", "C16", "C17", "C18", "C19", "C20"]


def main():
    crates, th = facts.load()
    out = {}
    readings = {}
    for guard in (False, True):
        for inline in (0, 1, 2):
            readings["g%di%d" % (int(guard), int(inline))] = normalize.normalise_program(crates, guard=guard, inline=inline)[0]
    for pid in ALL:
        m = importlib.import_module("rules." + pid.lower())
        ck = report.Check(pid, "quick", silent=True)
        m.rules(ck, ir.Program(crates, th))
        if ck.violations():
            print("%s: the program as written has violations; not a reference tree" % pid)
            sys.exit(1)
        out[pid] = {}
        for rid, cn in readings.items():
            c2 = report.Check(pid, "quick", silent=True)
            m.rules(c2, ir.Program(cn, th))
            out[pid][rid] = {"violations": sorted({v["key"] for v in c2.violations()}), "anchors": dict(c2.anchor_counts)}
        print(pid, {rid: len(v["violations"]) for rid, v in out[pid].items()})
    json.dump(out, open(os.path.join(HERE, "tables", "normalised_reference.json"), "w"), indent=1, sort_keys=True)


if __name__ == "__main__":
    main()
