#!/usr/bin/env python3
"""Regenerates DESIGN.md §9 (seeded-defect campaign) from /verif/seeded/*/meta.json and handmut/results.json."""
import glob
import json
import os
import re

HERE = os.path.dirname(os.path.abspath(__file__))
BEGIN, END = "<!-- S9:BEGIN -->", "<!-- S9:END -->"


def cell(s, n=260):
    s = re.sub(r"\s+", " ", str(s or "")).replace("|", "\\|")
    return s if len(s) <= n else s[:n - 1] + "…"


def main():
    rows = []
    n_first = n_after = n_total = 0
    for d in sorted(glob.glob(os.path.join(HERE, "seeded", "*", "meta.json"))):
        m = json.load(open(d))
        name = os.path.basename(os.path.dirname(d))
        v = m.get("verified", {})
        first = [c for c, r in v.get("checks", {}).items() if r.get("exit") == 1]
        own_first = m["property"] in first
        det = m.get("detected_by_checks") or first
        n_total += 1
        n_first += 1 if own_first else 0
        n_after += 1 if m["property"] in det else 0
        keys = []
        for c in det:
            ks = v.get("checks", {}).get(c, {}).get("violations_after_strengthening") or v.get("checks", {}).get(c, {}).get("violations") or []
            keys += [k.split("|")[0] + "|…|" + k.split("|")[-1] if k.count("|") > 1 else k for k in ks[:1]]
        rows.append("| %s | %s | %s | %s | %s | %s |" % (name, m["property"], cell(m.get("summary"), 300), cell(m.get("needs_to_manifest"), 200),
                                                      "yes" if own_first else ("other check only: " + ",".join(first) if first else "**missed**"),
                                                      cell(m.get("strengthening") or ("caught as built: " + "; ".join(keys)), 420)))
    hm = {}
    p = os.path.join(HERE, "handmut", "results.json")
    if os.path.exists(p):
        hm = json.load(open(p))
    hm_tot = [r for r in hm.values() if r.get("result") in ("detected", "MISSED")]
    out = [BEGIN, "",
           "Seeds verified and filed: **%d**. Reported by the property's own check as first built: **%d**; after strengthening: **%d**." % (n_total, n_first, n_after), "",
           "| seed | property | change | needs | caught by the check as first built? | which rule reports it now / what was strengthened |",
           "|------|----------|--------|-------|-------------------------------------|---------------------------------------------------|"] + rows + [""]
    if hm_tot:
        out += ["Hand-written one-edit source mutants (`handmut/mutants.py`, run by `tools_handmut.py`; no demonstration, they probe rule sensitivity): "
                "**%d of %d** are reported by the check of the property they break on the current rules." % (sum(r["result"] == "detected" for r in hm_tot), len(hm_tot)), ""]
        by = {}
        for k, r in sorted(hm.items()):
            by.setdefault(k.split("/")[0], []).append("%s: %s" % (k.split("/", 1)[1], r.get("result")))
        for pid, xs in sorted(by.items()):
            out.append("* %s — %s" % (pid, "; ".join(xs)))
        out.append("")
    out.append(END)
    dp = os.path.join(HERE, "DESIGN.md")
    s = open(dp).read()
    if BEGIN in s:
        s = s[:s.index(BEGIN)] + "\n".join(out) + s[s.index(END) + len(END):]
    else:
        raise SystemExit("markers missing in DESIGN.md")
    open(dp, "w").write(s)
    print("seeds %d, first %d, after %d; handmut %d" % (n_total, n_first, n_after, len(hm_tot)))


if __name__ == "__main__":
    main()
