#!/usr/bin/env python3
"""Regenerates the table of behaviour-preserving controls in DESIGN.md (between the controls:begin / controls:end markers) from
controls/*/meta.json as last written by `tools_refactor.py --rerun`."""
import glob
import json
import os
import re

HERE = os.path.dirname(os.path.abspath(__file__))


def main():
    rows, tot, alarms = [], 0, 0
    for d in sorted(glob.glob(os.path.join(HERE, "controls", "*"))):
        m = json.load(open(os.path.join(d, "meta.json")))
        res = m.get("result", {})
        al = {p: c["violations"] for p, c in res.get("checks", {}).items() if c["exit"] != 0}
        tot += 1
        alarms += 1 if al else 0
        kind = re.sub(r"\s+", " ", (m.get("kind") or "")).strip()[:60]
        out = "silent" if not al else "ALARM " + ", ".join("%s: %s" % (p, "; ".join(sorted({v.split("|")[0] for v in vs}))) for p, vs in sorted(al.items()))
        rows.append("| %s | %s | %s |" % (os.path.basename(d), kind.replace("|", "/"), out.replace("|", "/")))
    txt = "\n".join(["| control | kind of refactoring | all 19 checks |", "|---|---|---|"] + rows + ["", "%d controls, %d with an alarm." % (tot, alarms)])
    p = os.path.join(HERE, "DESIGN.md")
    s = open(p).read()
    a, b = s.index("<!-- controls:begin -->"), s.index("<!-- controls:end -->")
    s = s[:a] + "<!-- controls:begin -->\n" + txt + "\n" + s[b:]
    open(p, "w").write(s)
    print("%d controls, %d alarms" % (tot, alarms))


if __name__ == "__main__":
    main()
