#!/usr/bin/env python3
"""tools_meta.py <seed> <check,check,..> <strengthening text>: record which checks catch a seed after a rule was added."""
import json, sys, os
seed, checks, text = sys.argv[1], sys.argv[2].split(","), sys.argv[3]
p = os.path.join(os.path.dirname(os.path.abspath(__file__)), "seeded", seed, "meta.json")
m = json.load(open(p))
m["detected_by_checks"] = checks
if text:
    m["strengthening"] = text
json.dump(m, open(p, "w"), indent=1)
print(seed, checks)
