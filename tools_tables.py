#!/usr/bin/env python3
"""Development helper: materialises the reviewed tables (tables/panic_sites.json, tables/decode_sites.json) from the
review notes below. Every entry of the generated JSON names exactly one site key; the checks only ever read the JSON.
Run after a review pass: `python3 tools_tables.py`; it reports sites that no note covers (those stay violations)."""
import json
import os
import sys

HERE = os.path.dirname(os.path.abspath(__file__))
sys.path.insert(0, os.path.join(HERE, "engine"))
from rules import c19, census, facts, ir  # noqa: E402

# (function-name substring, kind, description substring, reason, witness or None)
PANIC_NOTES = [
    # ---- class-hierarchy artefacts / API contracts
    ("EntriesV3 as core::convert::From<&versatiles_core::types::Blob>>::from", "unwrap", "from_blob",
     "conversion used by tests only; reached solely through the class-hierarchy over-approximation of generic From/Into calls — no workspace function calls it with decoder input",
     {"kind": "callers_are", "callers": []}),
    ("VersaTilesReader as versatiles_core::types::tiles_reader::TilesReaderTrait>::get_tile_data", "unwrap", "get_tile_index2",
     "dominated by the early return `if !bbox.contains2(&tile_coord) { return Ok(None) }` on the same bbox: get_tile_index2 only fails for a coordinate outside the box",
     {"kind": "body_contains", "callee": "contains2"}),
    ("DataReaderBlob as versatiles_core::io::data_reader::DataReaderTrait>::read_range", "index", "blob[start..end]",
     "dominated by ensure!(end <= blob.len()); start <= end unless offset+length overflows, which is reported separately by R-ARITH", {"kind": "fact", "fact": "end <= blob.len()"}),
    ("DataReaderHttp as versatiles_core::io::data_reader::DataReaderTrait>::read_range", "unwrap", "Captures::get",
     "inside `if let Some(captures) = RE_RANGE.captures(..)`: the constant pattern has two mandatory capture groups, so groups 1 and 2 exist whenever it matches", None),
    ("ValueReaderFile as versatiles_core::io::value_reader::ValueReader<'a, E>>::position", "unwrap", "stream_position",
     "stream_position on a BufReader<File> fails only on an OS-level seek error, never on file content (I/O faults are outside C19)", None),
    ("TileBBox as versatiles_core::utils::transform_coord::TransformCoord>::flip_y", "panic", "assert",
     "asserts the TileBBox invariant y_max <= max that every constructor (new/new_full/new_empty, confined to impl TileBBox) establishes and every mutator keeps; not input dependent",
     {"kind": "ctor_confined", "adt": "versatiles_core::types::tile_bbox::TileBBox"}),
    ("TileCoord3 as versatiles_core::utils::transform_coord::TransformCoord>::flip_y", "panic", "assert",
     "the only lookup-path caller (TilesConvertReader::get_tile_data) returns Ok(None) for coordinates outside the 2^z grid before flipping; the other caller is the bulk stream, which C19 excludes",
     [{"kind": "callers_are", "callers": ["<versatiles_container::container::converter::TilesConvertReader as versatiles_core::types::tiles_reader::TilesReaderTrait>::get_tile_data",
                                          "<versatiles_container::container::converter::TilesConvertReader as versatiles_core::types::tiles_reader::TilesReaderTrait>::get_bbox_tile_stream"]},
      {"kind": "fn_has_guard", "fn": "<versatiles_container::container::converter::TilesConvertReader as versatiles_core::types::tiles_reader::TilesReaderTrait>::get_tile_data", "mentions": [".x", ".y"]}]),
    ("GeomType as core::convert::From<&versatiles_geometry::geo::geometry::Geometry>>::from", "panic", "panic",
     "only reached from VectorTileFeature::from_geometry via from_debug's generated features, which are Multi* geometries built from constant glyph data; decoders never construct a Geometry and convert it back", None),
    # ---- caller-supplied paths (environment, not decoder input)
    ("MBTilesReader::load_from_sqlite", "unwrap", "Path::to_str", "path is supplied by the caller/OS (already used to open the file); not container content", None),
    ("PipelineReader::open_path_nested", "unwrap", "Path::to_str", "path is supplied by the caller/OS; not decoder input", None),
    ("PipelineReader::open_path_nested", "unwrap", "Path::parent", "the file at `path` was just read successfully, so the path has a file name and therefore a parent", None),
    ("TarTilesReader::open_path", "unwrap", "Path::to_str", "path is supplied by the caller/OS; not archive content", None),
    ("DataReaderFile::open", "unwrap", "Path::to_str", "canonicalised path supplied by the caller/OS; not file content", None),
    ("PipelineFactory::resolve_filename", "unwrap", "Path::to_str", "join of the caller-supplied directory and a filename that is already a &str; only a non-UTF-8 working directory (environment) can fail", None),
    # ---- PMTiles directory search
    ("EntriesV3::find_tile", "index", "self.entries[k]", "binary search: 0 <= m <= k <= n <= len-1 on every iteration (n starts at len-1, the loop runs while m <= n)", None),
    ("EntriesV3::find_tile", "index", "self.entries[n]", "after the loop n <= len-1 and the access is guarded by n >= 0", {"kind": "fact", "fact": "n >= 0"}),
    ("EntriesV3::from_blob", "index", "entries[", "i ranges over 0..num_entries and `entries` received exactly num_entries pushes in the first loop (a failed read returns early); i-1 is guarded by i > 0", None),
    ("tile_id::coord_to_tile_id", "shift", "1 << z", "dominated by `if z >= 32 { bail }`", {"kind": "fact", "fact": "z < 32"}),
    ("tile_id::coord_to_tile_id", "shift", "1 << <bin>", "t_z < z <= 31, so the i64 shift amount t_z*2 is at most 60", {"kind": "fact", "fact": "z < 32"}),
    ("tile_id::tile_id_to_coord", "shift", "1 << t_z", "t_z iterates the constant range 0..32; 1<<31 squared is 2^62 and fits the 64-bit accumulator", None),
    # ---- vector tile geometry (lazy half of decoding a tile)
    ("VectorTileFeature::to_geometry", "index", "ring[", "dominated by ensure!(ring.len() >= 4): index len-1 exists and the subtraction cannot underflow", {"kind": "fact", "fact": "ring.len() >= 4"}),
    # ---- mbtiles coverage
    ("MBTilesReader::get_bbox_pyramid", "std", "clamp",
     "clamp(0, max_value): max_value = min(2^z - 1, i32::MAX) >= 0 because the zoom range was validated (ensure!(z0 >= 0 && z1 <= 31)) and z runs over z0..=z1", None),
    ("MBTilesReader::get_bbox_pyramid", "shift", "1 << ",
     "1i64 << z with z0 <= z <= z1 and ensure!(z0 >= 0 && z1 <= 31) before the loop: shift amounts are 0..=31", None),
    # ---- tar reader
    ("TarTilesReader::open_path", "std", "Vec::remove", "inside `if path_tmp.first() == Some(&\".\")`: the vector has a first element", None),
    # ---- versatiles tile index
    ("tile_index::TileIndex::get", "index", "self.index[index]",
     "only called from VersaTilesReader::get_tile_data with get_tile_index2(coord) of the block's box, which is < count_tiles(), and get_block_tile_index ensures index.len() == count_tiles()",
     [{"kind": "callers_are", "callers": ["<versatiles_container::container::versatiles::reader::VersaTilesReader as versatiles_core::types::tiles_reader::TilesReaderTrait>::get_tile_data",
                                          "<versatiles_container::container::versatiles::reader::VersaTilesReader as versatiles_core::types::tiles_reader::TilesReaderTrait>::get_bbox_tile_stream"]},
      {"kind": "guard_before_publish", "fn": "versatiles_container::container::versatiles::reader::VersaTilesReader::get_block_tile_index",
       "mentions": ["len()", "count_tiles()"], "publish": ["add", "get_or_set", "insert"]}]),
    # ---- byte iterator
    ("ByteIterator::advance", "index", "debug_buffer[index]", "index = position % DEBUG_RING_BUFFER_SIZE into an array of that size", None),
    ("ByteIterator::next_byte", "index", "self.buffer[self.buffer_pos]", "after the refill branch buffer_pos < buffer_len <= buffer.len() (buffer_len is the count returned by read into that buffer)", None),
    ("ValueReader::read_varint", "shift", "<< shift", "shift grows by 7 and the loop bails when it reaches 70, so shifts are 0..=63 at the use", {"kind": "counter_bound", "max": 63}),
    ("types::blob::Blob::read_range", "index", "self.0[", "dominated by `if offset + length > len { bail }`", None),
    # ---- limited cache
    ("LimitedCache::cleanup", "index", "indices[", "cleanup is only called from add() when len >= max_length >= 1, so indices is non-empty and (len-1)/2 < len (C20 I2/I4)", {"kind": "callers_are", "callers": ["versatiles_core::types::limited_cache::LimitedCache::add"]}),
    ("LimitedCache::with_maximum_size", "div", "per_element_size", "size_of::<K>() + size_of::<V>() of the two instantiations (TileCoord3/Arc<TileIndex>, ByteRange/Arc<Blob>) is non-zero; not input dependent", None),
    ("LimitedCache::with_maximum_size", "panic", "panic", "callers pass literal byte budgets far above one element; not input dependent", None),
    # ---- tile boxes / pyramids: level and z are <= 31 by construction
    ("TileBBox::as_geo_bbox", "unwrap", "TileCoord3::new", "TileCoord3::new only rejects z > 31 and self.level <= 31 is a TileBBox invariant", {"kind": "ctor_confined", "adt": "versatiles_core::types::tile_bbox::TileBBox"}),
    ("TileBBoxPyramid::get_level_bbox", "index", "level_bbox[level]", "documented precondition level < 32; callers pass zoom levels of TileBBox/TileCoord3 values or loop over 0..32", None),
    ("TileBBoxPyramid::include_bbox", "unwrap", "include_bbox", "include_bbox fails only for differing levels; the target is level_bbox[bbox.level], whose level equals its index", None),
    ("TileBBoxPyramid::include_bbox", "index", "level_bbox[bbox.level]", "bbox.level <= 31 is a TileBBox invariant (constructors confined to impl TileBBox, level never assigned)", {"kind": "ctor_confined", "adt": "versatiles_core::types::tile_bbox::TileBBox"}),
    ("TileBBoxPyramid::include_coord", "index", "level_bbox[coord.z]", "coord.z <= 31: TileCoord3 values are only built by TileCoord3::new, which rejects z > 31, and z is never assigned", {"kind": "ctor_confined", "adt": "versatiles_core::types::tile_coords::TileCoord3"}),
    ("TileBBoxPyramid::new_empty", "unwrap", "new_empty", "from_fn over the 32-element array: z in 0..32, new_empty only rejects level > 31", None),
    ("TileBBoxPyramid::new_full", "unwrap", "new_", "from_fn over the 32-element array: z in 0..32", None),
    ("TileBBoxPyramid::set_level_bbox", "index", "level_bbox[level]", "level = bbox.level <= 31 (TileBBox invariant)", {"kind": "ctor_confined", "adt": "versatiles_core::types::tile_bbox::TileBBox"}),
    # ---- file-name helpers
    ("TileCompression::from_filename", "unwrap", "str::get", "index comes from rfind('.') on the same string: '.' is ASCII, so index is a char boundary inside the string", None),
    ("TileCompression::from_filename", "std", "String::truncate", "same index from rfind('.'): a char boundary <= len", None),
    ("TileFormat::from_filename", "index", "filename[index..]", "index from rfind('.') on the same string: char boundary inside the string", None),
    ("TileFormat::from_filename", "std", "String::truncate", "same index from rfind('.')", None),
    # ---- geometry helpers reached from from_debug only
    ("VectorGeometryTrait::into_first_and_rest", "unwrap", "Iterator::next", "used when encoding features to MVT geometry (write path of from_debug / tests); decoders of C19's entry points never encode geometries", None),
    ("math::area::area_ring", "unwrap", "[T]::last", "called on rings of from_debug's constant glyph outlines and, in to_geometry, only after ensure!(ring.len() >= 4)", None),
    ("PropertyManager::decode_tag_ids", "index", "tag_ids[", "i < len/2, hence 2i+1 <= len-1 for both accesses", None),
    ("versatiles_image::helper::image2blob", "panic", "todo", "unreachable arms: the only caller (from_debug::build_tile) calls image2blob* inside a match arm restricted to JPG | PNG | WEBP",
     {"kind": "callers_are", "callers": ["versatiles_pipeline::operations::read::from_debug::build_tile"]}),
    ("helpers::csv::read_csv_file", "index", "header[col]", "read_csv_iter rejects every row whose field count differs from the first row, so col < header.len()", [{"kind": "body_contains", "callee": "read_csv_iter"}, {"kind": "set_once", "fn": "versatiles_core::utils::csv::read_csv_iter", "type": "usize"}]),
    ("from_debug::vector::draw_text", "unwrap", "from_features", "features are generated from the constant built-in font; not input dependent", None),
    ("from_debug::vector::get_multipolygon", "unwrap", "", "operates on the constant glyph outlines of the built-in font; not input dependent", None),
]

DECODE_NOTES = [
    ("TileBBox::new", "arith", "2.pow() - 1", "dominated by ensure!(level <= 31): 2^level >= 1, the subtraction cannot underflow and pow cannot overflow u32"),
    ("Blob::new_sized", "alloc", "from_elem(length)", "allocation primitive; every caller with a decoded length (ValueReader::read_blob) checks it against remaining() first"),
    ("ValueReaderFile as versatiles_core::io::value_reader::ValueReader<'a, E>>::get_sub_reader", "alloc", "from_elem(length)",
     "dominated by `if end > self.len { bail }` with end = start + length, so length <= file length"),
    ("ByteRange::as_range_usize", "arith", "self.offset + self.length",
     "conversion helper of a public value type; its only caller on decoding paths, Blob::read_range, bails out first unless "
     "offset.saturating_add(length) <= blob length, so the sum cannot overflow there",
     [{"kind": "callers_are", "callers": ["versatiles_core::types::blob::Blob::read_range"]},
      {"kind": "fn_has_guard", "fn": "versatiles_core::types::blob::Blob::read_range", "mentions": [".offset.saturating_add(", ".0.len()"]}]),
]


VT = "VersaTilesReader as versatiles_core::types::tiles_reader::TilesReaderTrait>::get_bbox_tile_stream"
MB = "MBTilesReader as versatiles_core::types::tiles_reader::TilesReaderTrait>::get_bbox_tile_stream"
OV = "from_overlayed::Operation as versatiles_pipeline::traits::operation::OperationTrait>::get_tile_stream"
MG = "from_vectortiles_merged::Operation as versatiles_pipeline::traits::operation::OperationTrait>::get_tile_stream"
# (function substring, kind, description substring, class, reason)
STREAM_NOTES = [
    (MB, "unwrap", "Pool::get", "io-or-corrupt", "connection pool failure (I/O)"),
    (MB, "unwrap", "Connection::prepare", "io-or-corrupt", "constant SQL text against the MBTiles schema; fails only for a file without a tiles table"),
    (MB, "unwrap", "Statement::query_map", "io-or-corrupt", "binding five integers to five placeholders of the constant statement; SQLite I/O otherwise"),
    (MB, "unwrap", "TileCoord3::new", "io-or-corrupt", "fails only for zoom_level > 31 stored in the file; the WHERE clause selects zoom_level = bbox.level <= 31, so never for rows the query returns"),
    (VT, "unwrap", "intersect_bbox", "invariant", "intersect_bbox fails only for different levels; the block was looked up with a block coordinate at bbox.level"),
    (VT, "panic", "assert_eq", "invariant", "level equality of the box and the block found at that level"),
    (VT, "unwrap", "get_block_tile_index", "io-or-corrupt", "reading/decoding the block's tile index fails only on I/O errors or a corrupt file"),
    (VT, "unwrap", "get_coord3_by_index", "invariant", "index enumerates tile_index entries and get_block_tile_index ensures len == count_tiles() of the block box"),
    (VT, "unwrap", "read_range", "io-or-corrupt", "reading a chunk of the file (I/O)"),
    (VT, "panic", "assert", "invariant", "the coordinate passed the contains3 filter on bbox ∩ block, a subset of bbox"),
    ("get_bbox_tile_stream::{closure#0}::Chunk::push", "panic", "panic", "invariant", "entries are sorted by offset and a chunk starts at its first entry's offset"),
    (OV, "unwrap", "new_empty", "invariant", "bbox.level <= 31 (TileBBox invariant)"),
    (OV, "unwrap", "include_coord3", "invariant", "coordinate reconstructed from the sub-box has the sub-box's level"),
    (OV, "unwrap", "get_coord3_by_index", "invariant", "index enumerates the slots, sized count_tiles() of the same sub-box (R-SLOT)"),
    (OV, "unwrap", "get_tile_index3", "invariant", "the source was asked for bbox_left, a subset of the sub-box, and sources deliver nothing outside the box they were asked for (R-CLIP holds for every stream implementation)"),
    (OV, "index", "tiles[index]", "invariant", "index < count_tiles() == tiles.len() (R-SLOT)"),
    (OV, "unwrap", "recompress", "io-or-corrupt", "fails only for a tile that does not decode with its source's declared compression"),
    (MG, "unwrap", "get_tile_index3", "invariant", "the source was asked for the sub-box itself and delivers nothing outside it (R-CLIP)"),
    (MG, "unwrap", "decompress", "io-or-corrupt", "fails only for a tile that does not decode with its source's declared compression"),
    (MG, "index", "tiles[index]", "invariant", "index < count_tiles() == tiles.len() (R-SLOT)"),
    (MG, "unwrap", "get_coord3_by_index", "invariant", "i enumerates the slots, sized count_tiles() of the same sub-box (R-SLOT)"),
    (MG, "unwrap", "merge_tiles", "io-or-corrupt", "fails only for a source tile that is not a decodable vector tile"),
    ("filter_bbox::Operation as versatiles_pipeline::traits::operation::OperationTrait>::get_tile_stream", "unwrap", "intersect_pyramid", "invariant", "intersect_pyramid intersects with the pyramid's box of the same level; fails only for different levels"),
    ("filter_zoom::Operation as versatiles_pipeline::traits::operation::OperationTrait>::get_tile_stream", "unwrap", "intersect_pyramid", "invariant", "same level on both sides by construction"),
    ("vectortiles_update_properties::Operation as versatiles_pipeline::traits::operation::OperationTrait>::get_tile_stream", "unwrap", "Runner::run", "io-or-corrupt", "fails only for a source tile that is not a decodable vector tile"),
    ("TileConverter::process_stream", "unwrap", "FnConv::run", "io-or-corrupt", "fails only for a tile that does not decode with the declared source compression"),
    ("types::blob::Blob::get_range", "index", "self.0[range]", "io-or-corrupt", "the slice lies inside the chunk that was read for exactly these tile ranges; out of range only if the index is inconsistent with the file"),
    ("TileBBox::get_coord3_by_index", "div", "", "invariant", "dominated by ensure!(index < count_tiles()): an empty box has count 0 and returns Err before dividing by its width"),
    ("TileBBox::into_iter_coords", "unwrap", "TileCoord3::new", "invariant", "self.level <= 31 (TileBBox invariant)"),
    ("TileBBox::iter_coords", "unwrap", "TileCoord3::new", "invariant", "self.level <= 31 (TileBBox invariant)"),
    ("TileBBox::iter_bbox_grid", "unwrap", "", "invariant", "grid cells are built at self.level inside [0, max] with min <= max by the loop bounds, then intersected with self at the same level"),
    ("TileBBox::scale_down", "panic", "panic", "invariant", "callers pass the constant 256"),
    ("TileStream::filter_map_blob_parallel", "unwrap", "expect on res", "io-or-corrupt", "JoinError only if the per-tile callback panicked, which the entries above reduce to corrupt tiles"),
    ("TileStream::map_blob_parallel", "unwrap", "expect on e", "io-or-corrupt", "JoinError only if the per-tile callback panicked, which the entries above reduce to corrupt tiles"),
]


HANDLER_NOTES = [
    ("static_source_folder::Folder as versatiles::tools::server::sources::static_source::StaticSourceTrait>::get_data", "unwrap", "read_to_end",
     "reading a file that was just opened: fails only on an I/O error of the local disk, not because of the request text"),
    ("static_source_tar::TarFile as versatiles::tools::server::sources::static_source::StaticSourceTrait>::get_data", "index", "url.str[1..]",
     "every Url is built by Url::new / Url::push, which make str start with '/' (one ASCII byte), so 1 is a char boundary within the string"),
    ("static_source::StaticSource::get_data", "unwrap", "Url::strip_prefix", "dominated by `if !url.starts_with(&self.prefix) { return None }`, the condition strip_prefix checks"),
    ("add_tile_sources_to_app::serve_tile", "unwrap", "Url::strip_prefix", "the handler is registered on the route `<prefix>*path`, so axum only calls it for paths that start with the prefix"),
    ("tile_server::ok_data", "unwrap", "optimize_compression", "E-COMP-OPT shows Err only when identity is not allowed, and get_encoding always allows it; otherwise only a stored tile that does not decode (corrupt source)"),
    ("tile_server::ok_data", "unwrap", "Builder::body", "header names are constants and values come from the constant mime/encoding tables; the request text never reaches a header value"),
    ("utils::url::Url::as_path", "index", "self.str[1..]", "str starts with '/' by construction (Url::new, Url::push)"),
    ("utils::url::Url::strip_prefix", "index", "self.str[prefix.str.len()..]", "dominated by ensure!(self.str.starts_with(&prefix.str)): the prefix length is a char boundary inside the string"),
]


HANDLER_ARITH = [
    ("<versatiles_container::container::mbtiles::reader::MBTilesReader as versatiles_core::types::tiles_reader::TilesReaderTrait>::get_tile_data|arith|2.pow() - 1",
     "2^z >= 1 for every z, and z <= 31 (TileCoord3::new) keeps the power inside u32"),
    ("<versatiles_core::types::tile_coords::TileCoord3 as versatiles_core::utils::transform_coord::TransformCoord>::flip_y|arith|2.pow() - 1",
     "2^z >= 1 for every z, and z <= 31 (TileCoord3::new) keeps the power inside u32"),
]


def _with_facts(e, s):
    """snapshot of the guards dominating the site at review time (re-validated on every run by census.entry_lapsed)"""
    f = census.site_facts(s)
    if f:
        e["facts"] = f
    a = census.site_args(s)
    if a is not None:
        e["args"] = a
    return e


def _norm_witness(w, s):
    """`fact` witnesses are stored with local names replaced by types, like the site keys"""
    import copy
    w = copy.deepcopy(w)
    for x in (w if isinstance(w, list) else [w]):
        if x.get("kind") == "fact":
            x["fact"] = census.norm_text(s.tymap, x["fact"])
    return w


def handler_table(P):
    from rules import c05
    hs = c05.handlers(P)
    seen = P.reachable(hs)
    t19 = census.load_table("panic_sites.json")
    tst = census.load_table("stream_sites.json")
    out, unc, used = [], [], set()
    for fq in sorted(seen):
        b = P.fn(fq)
        for s in census.collect_sites(P, b):
            if census.auto_discharge(s) or s.key in t19 or s.key in tst:
                continue
            hit = None
            for i, (fn, kind, sub, reason) in enumerate(HANDLER_NOTES):
                if fn in s.fn and kind == s.kind and sub in s.desc:
                    hit = (i, reason)
                    break
            if hit is None:
                unc.append(s)
                continue
            used.add(hit[0])
            out.append(_with_facts({"key": s.key, "reason": hit[1]}, s))
    # arithmetic on request coordinates (R-REQ-ARITH): exact keys
    raw2key = {}
    for fq in sorted(seen):
        for s in census.collect_decode_sites(P, P.fn(fq), ()):
            raw2key[s.rawkey] = s.key
    for key, reason in HANDLER_ARITH:
        out.append({"key": raw2key.get(key, key), "reason": reason})
    with open(os.path.join(HERE, "tables", "handler_sites.json"), "w") as fh:
        json.dump({"comment": "reviewed panic-capable sites reachable from the HTTP handlers (C05 R-HANDLER-TOTAL)", "sites": out}, fh, indent=1)
    print("handler table: %d entries; %d notes unused; %d uncovered" % (len(out), len(HANDLER_NOTES) - len(used), len(unc)))
    for s in unc:
        print("  uncovered:", s.key, s.loc)


def stream_table(P):
    from rules import c02
    E = c02.stream_entries(P)
    seen = P.reachable(E)
    t19 = census.load_table("panic_sites.json")
    out, unc, used = [], [], set()
    for fq in sorted(seen):
        b = P.fn(fq)
        for s in census.collect_sites(P, b):
            if census.auto_discharge(s) or s.key in t19:
                continue
            hit = None
            for i, (fn, kind, sub, cls, reason) in enumerate(STREAM_NOTES):
                if fn in s.fn and kind == s.kind and sub in s.desc:
                    hit = (i, cls, reason)
                    break
            if hit is None:
                unc.append(s)
                continue
            used.add(hit[0])
            out.append(_with_facts({"key": s.key, "class": hit[1], "reason": hit[2]}, s))
    with open(os.path.join(HERE, "tables", "stream_sites.json"), "w") as fh:
        json.dump({"comment": "reviewed panic-capable sites in bulk streams (C02 R-STREAM-TOTAL): none may depend on the requested box vs. the coverage", "sites": out}, fh, indent=1)
    print("stream table: %d entries; %d notes unused; %d uncovered" % (len(out), len(STREAM_NOTES) - len(used), len(unc)))
    for i, n in enumerate(STREAM_NOTES):
        if i not in used:
            print("  unused note:", n[:3])
    for s in unc:
        print("  uncovered:", s.key, s.loc)


def main():
    crates, th = facts.load()
    P = ir.Program(crates, th)
    stream_table(P)
    handler_table(P)
    E = c19.entries(P)
    seen = P.reachable(E)
    out, uncovered, used_notes = [], [], set()
    for fq in sorted(seen):
        b = P.fn(fq)
        for s in census.collect_sites(P, b):
            if census.auto_discharge(s):
                continue
            hit = None
            for i, (fn, kind, sub, reason, wit) in enumerate(PANIC_NOTES):
                if fn in s.fn and kind == s.kind and sub in s.desc:
                    hit = (i, reason, wit)
                    break
            if hit is None:
                uncovered.append(s)
                continue
            used_notes.add(hit[0])
            e = _with_facts({"key": s.key, "reason": hit[1]}, s)
            if hit[2]:
                e["witness"] = _norm_witness(hit[2], s)
            out.append(e)
    with open(os.path.join(HERE, "tables", "panic_sites.json"), "w") as fh:
        json.dump({"comment": "reviewed panic-capable sites reachable from decoders (C19 R-PANIC); one named site per entry, generated from tools_tables.py review notes", "sites": out}, fh, indent=1)
    dout = []
    pt = census.param_taint_fixpoint(P, sorted(seen))
    dunc = []
    for fq in sorted(seen):
        b = P.fn(fq)
        for s in census.collect_decode_sites(P, b, pt.get(fq, ())):
            hit = None
            for note in DECODE_NOTES:
                fn, kind, sub, reason = note[:4]
                if fn in s.fn and kind == s.kind and sub in s.desc:
                    hit = note
            if hit:
                e = _with_facts({"key": s.key, "reason": hit[3]}, s)
                if len(hit) > 4:
                    e["witness"] = _norm_witness(hit[4], s)
                dout.append(e)
            else:
                dunc.append(s)
    with open(os.path.join(HERE, "tables", "decode_sites.json"), "w") as fh:
        json.dump({"comment": "reviewed allocation/arithmetic sites on decoded integers (C19 R-ALLOC/R-ARITH)", "sites": dout}, fh, indent=1)
    print("panic table: %d entries; %d notes unused; %d sites uncovered" % (len(out), len(PANIC_NOTES) - len(used_notes), len(uncovered)))
    for i, n in enumerate(PANIC_NOTES):
        if i not in used_notes:
            print("  unused note:", n[:3])
    for s in uncovered:
        print("  uncovered:", s.key, s.loc)
    print("decode table: %d entries; %d uncovered" % (len(dout), len(dunc)))
    for s in dunc:
        print("  uncovered:", s.key, s.loc)


if __name__ == "__main__":
    main()
