#!/usr/bin/env python3
"""Refreshes the `*built:*` line of every property section in DESIGN.md §3 from the evidence files (rule names, obligation and
mutant counts) and appends the hand-written note on what the seeded-defect campaign added."""
import json
import os
import re

HERE = os.path.dirname(os.path.abspath(__file__))
ADDED = {
    "C01": "R-ALL-LEVELS (every writer walks iter_levels() without skip/take/filter adaptors or loop exits), R-PM-LEAVES (leaf directories tile [0,len), decided on polynomial terms), R-RANGES (every range a reader follows is the value the writer got back from the write it describes: block ranges, header ranges), R-BLOCK-GEOM (global = local + 256·position, both sides, on terms), R-INDEX-FRESH (the per-block tile index starts empty), writer-/reader-fields against the layout's member names (a swap applied to both sides is caught), R-PM-LAYOUT (PMTiles sections cannot overlap: root position >= header length, root position + the limit handed to as_directory <= metadata position, as_directory returns only under root_bytes.len() <= limit; terms with HeaderV3::len() resolved); after the automatic mutation sweep: R-WRITE-COMPLETE (early exits of the writers only on emptiness facts; one index entry per tile; per tile the sink — append_data / fs write / add_tiles / append + entries.push — is called exactly once with that tile's data; add_tiles inserts every tile and commits once; PMTiles run_length 1 and tile_data range; tar member size), R-PM-DIR (PMTiles directory columns on terms, writer and reader, incl. varints), R-VT-TYPES (versatiles record helpers), R-NAME|reader-components",
    "C02": "R-AGREE (the stream clips by exactly the coverages the lookup guards by), R-INDEX-SCAN (versatiles chunked stream: position box, position, filter, sorted, slice, chunk extent, every entry in exactly one chunk, every chunk kept); R-INDEX-SCAN accepts chained filters and comparator sorts; reviewed unwrap entries carry the unwrapped call's arguments as terms (seed C02e); R-INDEX-SCAN|last-chunk-kept; R-BOX (TileBBox primitives on terms: intersection, containment, width/height, index<->coordinate, row-major iteration, scale_down, constructors, level guards)",
    "C03": "pyramid union rule, pairing of insert/include_coord must be unconditional; MBTiles estimate/refine queries must run unconditionally; variables identified by the aggregate they hold, not by name, R-UNION (boxalg.py: on every path of TileBBox::include_bbox / include_coord each edge is the min/max of the old and the included edge, an empty accumulator adopts — the one clause of the declined C15 that coverage properties need); R-COVER-MB|clamp (clamp(0, 2^z - 1) only); R-BOX (shared)",
    "C04": "E-COMP-LEAF|whole-payload (codec streams are drained by one read_to_end / one-shot call, no Read::take, truncate or sub-slice limits the payload), R-PM-LAYOUT (shared with C01), R-CODE mbtiles.format (shared with C01: the MBTiles target implies its compression by the format string)",
    "C05": "asks-source (no `Ok(None)` between building the coordinate and asking the reader: 404 is the source's own answer), tile-response labelling (get_data passes self.compression/self.tile_mime; new_some stores its own parameters), result-used (body and Content-Encoding tag are the pair returned by optimize_compression on every path), lookup outcomes evaluated abstractly (Err / Ok(None) -> 404, Ok(Some) -> response), allowed-set|not-widened and |from-request (after get_encoding only the compression goal may change; every ok_data call receives that set); R-STATUS|arity (three path parts are a tile request)",
    "C06": "from_geo|per-axis (each returned box is, per axis, [min corner, max(max corner, min corner)] or the plain corner under a dominating comparison on that axis), refusals (the lookup may refuse only x >= 2^z || y >= 2^z), levels_rule (per-level pyramid mutators visit every level; slice forms decided on terms), serve|every-source (the wrapper is built per source under a flags-only guard), border rules, coord-from-geo|clamped (a tile index computed from a geographic coordinate is clamped into 0..2^z-1 before it is used), R-BOX-D4 (TileBBox::flip_y / swap_xy decided on terms with mem::swap modelled; the pyramid applies them to every level); R-SELECT|full-start, |zoom-options, |no-selection, |bbox-arity (each CLI limit applied exactly when its option is given)",
    "C07": "an open whose handle is dropped on the spot (`.is_ok()`) is not a content sink, R-EXACT-KEY (a source without filesystem sinks looks the request path up literally in a map held by self; only the single leading '/' may be removed, crate helpers are looked into)",
    "C08": "E-COMP|unconditional (the re-encoding sits under exactly the conditions of the delivery), pyramid union rule (include_bbox_pyramid merges every level), helper inlining, missing-box / every-source-consulted / asks-missing (no exit from the source loop except `continue` under missing.is_empty()), sources-order (stored sources built with order-preserving combinators only), R-UNION (shared with C03)",
    "C09": "stage-installed (no successful build path returns the upstream operation), levels_rule incl. slice forms, same-named zoom arguments, both forms of the lookup guard, bbox-unsanitised (the bbox handed to the pyramid intersection is the validated one); R-BOX (shared)",
    "C10": "R-TABLE-INDEX (list/map of VTLPMap are inverse views; index = list.len() before the push), R-PBF zigzag (shift kinds by operand type), sources-order, id-presence (the feature writer emits the id field for every feature that has one, including id 0); R-TABLE-INDEX|pairs (tags are (key index, value index) pairs on both sides), R-PBF varint|read / |write",
    "C11": "R-JOIN (the keep/merge/replace/drop decision evaluated for all 16 valuations of id present, row found, replace, remove), stage-installed, R-TABLE-INDEX, R-PBF zigzag, R-TOTAL-ORDER (Ord impls used by sorts compare floats with total_cmp), id-presence, E-COMP|output (every payload the runner returns is the re-encoded tile or the decompressed input); tag pairs and varints (shared with C10)",
    "C12": "f-advisory-fields (lookups never consult the header's trailing zoom/bounds/count fields, which a torn header write can leave at zero), helper inlining for the writer entries, f-empty-index-rejected (every successful block-index decode passes the brotli decoder), provisional header rewrites distinguished from the committing one, fresh-file (the writer opens its output empty — File::create, truncate(true) or create_new(true) — so an interrupted rewrite cannot leave the previous archive's header over partly replaced data), R-WRITE-ERR (every fallible call in the container writers is consumed where it is produced: `?`, unwrap/expect, return, a match whose Err arm leaves); MBTilesWriter::new removes an existing file before opening (only guard: it exists)",
    "C13": "R-CONTENTION (a branch on try_lock & co. applies the same value transformations on both outcomes)",
    "C14": "P2|callback (closures handed to parallel operators capture no Mutex/RwLock/Atomic/Cell/channel), final flush condition must mean non-empty, delegate-adapters / delegate-result for operators that delegate to a spawning operator; the anchor counts spawning + delegating operators",
    "C16": "R-CACHE-KEY (a cached value is a function of its key), non-empty-where (NULL-to-error queries need a witness row), exact partial-block guard, R-BLOCK-GEOM, R-PM-COVER (shared with C03), R-PM-OFFSET0 (a stored directory offset of 0 resolves to offset + length of the entry decoded just before it, decided on terms), R-FIXED-READ (the only unconditional fixed-size reads are the published headers); R-SCAN-SKIP (tar / directory scans skip only what failed to parse), R-MB-READ (row.get columns, row guard y > 2^z - 1, parameters and TileJSON from the metadata rows), R-PM-DIR and R-VT-TYPES (shared with C01), depth loop starts at 0",
    "C17": "R-NUM (f64 Display; float→integer casts in the serialiser bounded by the integer type), R-MERGE (TileJSON::merge visits other.values completely, skips only the keys it combines itself and stores with an overwriting insert — tar/directory readers hand back default().merge(stored)); R-MB-META (MBTiles metadata rows written as (key, its value)), R-META-READ (tar / directory metadata arms merge the decoded member), R-MERGE|structured and skip polarity, tiles.json strings under their own key",
    "C18": "R-ORDER (split() keeps the order of the remaining nodes; build_pipeline wraps them in list order), scalar accessor insists on exactly one entry, parameter-separator (mandatory whitespace between parameters), mistyped (typed bool accessor rejects what is neither true nor false), R-TOKENS|ascii-classes (every character-class test of the parser is ASCII)",
    "C19": "witness kinds counter_bound and guard_before_publish; every reviewed entry stores a snapshot of its dominating guards and lapses when one disappears; R-ALLOC bounds must be proportionate (another run-time quantity or a constant <= 2^24 elements); site keys and fact witnesses independent of local names; the std panic list covers char::encode_utf8/16, clamp, rotate_*, select_nth_unstable*, Duration::from_secs_f*; reviewed R-ALLOC/R-ARITH entries are re-validated like R-PANIC entries; an unsigned value known to differ from 0 has lower bound 1; witness kind set_once (a remembered first value is written only while it is None); reviewed unwrap entries lapse when the argument terms of the unwrapped call change; map[key] under contains_key(key) and v.remove(0) under a first()/last() fact are discharged automatically",
    "C20": "capacity from the byte budget counts key and value; get-rules independent of the if-let/match/combinator idiom",
}


def main():
    dp = os.path.join(HERE, "DESIGN.md")
    s = open(dp).read()
    for pid, note in ADDED.items():
        ep = os.path.join(HERE, "evidence", pid + ".json")
        if not os.path.exists(ep):
            continue
        e = json.load(open(ep))
        c = e["coverage"]
        rules = sorted(c.get("rules", {}).keys()) if isinstance(c.get("rules"), dict) else sorted(c.get("rules", []))
        nm = len(c.get("selftest_fact_mutants", []))
        seeds = [x["seed"] for x in c.get("seeded_source_mutants", [])]
        m = re.search(r"(### %s [^\n]*\n\n)\*built:\*[^\n]*\n" % pid, s)
        if not m:
            print("no built line for", pid)
            continue
        old = m.group(0)
        base = old[len(m.group(1)):]
        tail = re.sub(r"^\*built:\* rules [^—]*— \d+ obligations on the current tree, \d+ fact-level mutants \(all detected\)\.", "", base.strip())
        tail = re.sub(r"\s*\*Added after the seeded-defect campaign \(§9\):\*.*$", "", tail).strip()
        line = "*built:* rules %s — %d obligations on the current tree, %d fact-level mutants (all detected). %s *Added after the seeded-defect campaign (§9):* %s.\n" % (
            ", ".join(rules), c.get("obligations", 0), nm, tail, note)
        s = s.replace(old, m.group(1) + line, 1)
    open(dp, "w").write(s)
    print("updated built lines")


if __name__ == "__main__":
    main()
