#!/usr/bin/env python3
"""Development helper for the seeded-defect campaign: verifies a seed produced by an independent sub-agent in its scratch
worktree (/tmp/wt_<name>), runs the /verif checks against /repo with the patch applied (and undoes it), and files the
seed under /verif/seeded/<name>/.   usage: tools_seed.py <name> [--crates a,b] [--keep]"""
import json
import os
import re
import shutil
import subprocess
import sys

HERE = os.path.dirname(os.path.abspath(__file__))
ALL = ["C01", "C02", "C03", "C04", "C05", "C06", "C07", "C08", "C09", "C10", "C11", "C12", "C13", "C14", "C16", "C17", "C18", "C19", "C20"]


def sh(cmd, cwd=None, env=None, timeout=3600):
    e = dict(os.environ, CARGO_NET_OFFLINE="true")
    if env:
        e.update(env)
    r = subprocess.run(cmd, shell=True, cwd=cwd, env=e, stdout=subprocess.PIPE, stderr=subprocess.STDOUT, text=True, timeout=timeout)
    return r.returncode, r.stdout


def failing_tests(out):
    return sorted(set(re.findall(r"^test (\S+) \.\.\. FAILED", out, re.M)))


def main():
    name = sys.argv[1]
    wt = "/tmp/wt_" + name
    seed = os.path.join(wt, "SEED")
    meta = json.load(open(os.path.join(seed, "meta.json")))
    pid = meta["property"]
    patch = os.path.join(seed, "patch.diff")
    tgt = {"CARGO_TARGET_DIR": os.path.join(wt, "target")}
    files = meta.get("files_changed") or re.findall(r"^\+\+\+ b/(\S+)", open(patch).read(), re.M)
    crates = sorted({f.split("/")[0] for f in files})
    if "--crates" in sys.argv:
        crates = sys.argv[sys.argv.index("--crates") + 1].split(",")
    log = {"seed": name, "property": pid}
    demo = meta["demo_cmd"]
    # 1. demo fails with the defect
    rc1, out1 = sh(demo, cwd=wt, env=tgt)
    log["demo_with_defect"] = {"exit": rc1, "tail": out1[-600:]}
    # 2. demo passes without it
    # (git stash is shared between worktrees, so reverse-apply the patch instead)
    rcr, outr = sh("git apply -R %s" % patch, cwd=wt)
    if rcr != 0:
        print("cannot reverse patch in worktree:", outr)
        sys.exit(2)
    try:
        rc2, out2 = sh(demo, cwd=wt, env=tgt)
        base_fail = {}
        for c in crates:
            rcb, ob = sh("cargo test --offline --no-fail-fast -p %s" % c, cwd=wt, env=tgt)
            base_fail[c] = failing_tests(ob)
    finally:
        sh("git apply %s" % patch, cwd=wt)
    log["demo_without_defect"] = {"exit": rc2, "tail": out2[-300:]}
    # 3. existing tests: nothing that passes at baseline fails with the defect (demo tests excluded)
    stable = set(json.load(open("/root/.vp/BASELINE.json"))["stable_pass"])
    new_fail = {}
    for c in crates:
        rcd, od = sh("cargo test --offline --no-fail-fast -p %s" % c, cwd=wt, env=tgt)
        ft = failing_tests(od)
        demo_names = set()
        for f in os.listdir(os.path.join(seed, "demo")):
            if f.endswith(".rs"):
                demo_names |= set(re.findall(r"fn (\w+)\s*\(", open(os.path.join(seed, "demo", f)).read()))
        new_fail[c] = [t for t in ft if t not in base_fail.get(c, []) and t.split("::")[-1] not in demo_names]
    log["existing_tests_newly_failing"] = new_fail
    stable_broken = [t for c in new_fail for t in new_fail[c] if any(s.endswith("::" + t) or s.endswith(t) for s in stable)]
    log["stable_tests_broken"] = stable_broken
    ok_seed = rc1 != 0 and rc2 == 0 and not any(new_fail.values())
    log["seed_valid"] = ok_seed
    print(json.dumps({k: v for k, v in log.items() if k not in ("demo_with_defect", "demo_without_defect")}, indent=1))
    print("demo with defect exit", rc1, "| without", rc2)
    # 4. run the checks against /repo with the patch applied
    rcg, _ = sh("git -C /repo status --porcelain --untracked-files=no")
    rca, oa = sh("git -C /repo apply %s" % patch)
    if rca != 0:
        print("patch does not apply to /repo:", oa)
        sys.exit(2)
    results = {}
    try:
        for c in ALL:
            rc, out = sh("./vt check %s" % c, cwd=HERE)
            viol = re.findall(r"^  violation (\S+)", out, re.M)
            results[c] = {"exit": rc, "violations": viol[:6]}
    finally:
        sh("git -C /repo checkout -- .")
    log["checks"] = results
    det = [c for c, r in results.items() if r["exit"] == 1]
    log["detected_by_checks"] = det
    print("detected by:", det)
    for c in det:
        print("  ", c, results[c]["violations"][:3])
    if "--nofile" in sys.argv:
        return
    # 5. file it
    dst = os.path.join(HERE, "seeded", name)
    shutil.rmtree(dst, ignore_errors=True)
    os.makedirs(dst)
    shutil.copy(patch, os.path.join(dst, "patch.diff"))
    shutil.copytree(os.path.join(seed, "demo"), os.path.join(dst, "demo"))
    meta["verified"] = log
    meta["detected_by_checks"] = det
    json.dump(meta, open(os.path.join(dst, "meta.json"), "w"), indent=1)
    if "--keep" not in sys.argv:
        sh("git -C /repo worktree remove --force %s" % wt)
        for f in os.listdir("/tmp"):
            if f.startswith("wt_%s_" % name) or f.startswith("wt_%s." % name):
                p = os.path.join("/tmp", f)
                shutil.rmtree(p, ignore_errors=True) if os.path.isdir(p) else os.remove(p)


if __name__ == "__main__":
    main()
