#!/usr/bin/env python3
"""Regenerates MANIFEST.json from the rule modules' META (single source of truth)."""
import importlib, json, os, sys
HERE = os.path.dirname(os.path.abspath(__file__))
sys.path.insert(0, os.path.join(HERE, "engine"))
props = [json.loads(l) for l in open(os.path.join(HERE, "properties.jsonl"))]
NA = {
 "C15": "pure value semantics of box arithmetic and Mercator rounding: every clause quantifies over integer/float results; no structural necessary condition exists short of interpreting the arithmetic (executing it concretely or symbolically is a different technique family). See DESIGN.md §4.",
}
checks, na = [], []
for p in props:
    pid = p["id"]
    path = os.path.join(HERE, "engine", "rules", pid.lower() + ".py")
    if pid in NA or not os.path.exists(path):
        na.append({"property_id": pid, "reason": NA.get(pid, "check not built yet in this round (static rule set planned in DESIGN.md §3)")})
        continue
    mod = importlib.import_module("rules." + pid.lower())
    m = mod.META
    checks.append({
        "property_id": pid,
        "quick_cmd": "./vt check %s --tier quick" % pid,
        "thorough_cmd": "./vt check %s --tier thorough" % pid,
        "evidence_file": "evidence/%s.json" % pid,
        "replay_cmd_template": "cat {path}",
        "engine": "vt-facts+rules",
        "level_claimed": {"category": m.get("level", "other"), "text": m["explanation"], "design_ref": "DESIGN.md §3 " + pid},
        "level_note": "Trusted: " + "; ".join(m.get("trusted_base", ())) + ". Not decided: " + m.get("not_decided", ""),
        "technique": m.get("technique", "static analysis: custom rules over rustc's type-checked HIR (rustc_private driver), call graph + structured control flow + resolved callees"),
    })
man = {
 "version": 1,
 "setup_cmd": "./vt setup",
 "hooks": {"guard": "versatiles_rs_verif", "enable": "none needed: checks read the type-checked source through a rustc wrapper (RUSTC_WORKSPACE_WRAPPER=engine/vt-facts) and never execute versatiles code",
           "baseline_off_cmd": "cd /repo && cargo test --workspace --no-fail-fast --offline", "source_commits": [], "add_only": True},
 "engines": [
  {"name": "vt-facts", "path": "engine/vt-facts", "serves_properties": [c["property_id"] for c in checks], "kind_free_text": "rustc_private driver (nightly) dumping typed HIR of every workspace crate as JSON (TSIR)"},
  {"name": "rules", "path": "engine/rules", "serves_properties": [c["property_id"] for c in checks], "kind_free_text": "Python rule library over TSIR: call graph, taint, typestate, table extraction, census with reviewed tables, fact-level mutants"},
 ],
 "checks": checks,
 "not_applicable": na,
 "notes": "Static analysis only. known_findings.json lists genuine defects (fixed/open). Evidence is rewritten by every run.",
}
json.dump(man, open(os.path.join(HERE, "MANIFEST.json"), "w"), indent=1)
print("checks:", [c["property_id"] for c in checks], "n/a:", [n["property_id"] for n in na])
